"""Shared rules about depth bookkeeping and grammar analysis (used by C03, C04, C05)."""
from __future__ import annotations

import ast
from typing import Any, Optional

from ..absint import B3, Env, Facts, Lin, Opaque, assume, entails_ge0, evaluate, find_model, prove_cmp, HOLDS, FAILS
from ..astutil import call_name, guards, is_self_attr
from ..dispatch import Branch, chain, classify, dispatch_chains
from ..frontend import AnalysisError, FunctionInfo, ancestors, dotted, norm, parent, walk_local
from ..report import Ctx
from .common import DECIDER

CREATE_NODE = "geneticengine.representations.tree.initializations:create_node"
GDT = "geneticengine.grammar.grammar:Grammar.get_distance_to_terminal"
PREPROCESS = "geneticengine.grammar.grammar:Grammar.preprocess"
FORMS = ("tuple", "list", "annotated", "refined list", "union", "abstract", "concrete")
TRUE_DELTA = {"tuple": 0, "list": 0, "annotated": 0, "refined list": 0, "union": 0, "abstract": 0, "concrete": 1}  # default depth mode


# ------------------------------------------------------------------------------------------- creation increments
def _ctx_depth_increment(ctx: Ctx, fn: FunctionInfo, e: ast.AST, scope: ast.AST, seen: int = 0) -> Optional[Lin]:
    """increment of .depth of the context expression *e* relative to the parameter 'context'"""
    if isinstance(e, ast.Name):
        if e.id == "context":
            return Lin.c(0)
        defs = [a for a in ast.walk(scope) if isinstance(a, ast.Assign) and any(isinstance(t, ast.Name) and t.id == e.id for t in a.targets)]
        if len(defs) == 1 and seen < 3:
            return _ctx_depth_increment(ctx, fn, defs[0].value, scope, seen + 1)
        return None
    if isinstance(e, ast.Call):
        nm = call_name(e)
        if nm == "LocalSynthesisContext":
            first = e.args[0] if e.args else next((k.value for k in e.keywords if k.arg == "depth"), None)
            if first is None:
                return None
            env = Env(Facts())
            env.vars["context.depth"] = Lin.sym("D")
            v = evaluate(env, first)
            if isinstance(v, Lin):
                r = v - Lin.sym("D")
                return r if r.is_const() else None
            return None
        # helper method on the context (e.g. context.expand(...)) returning a new LocalSynthesisContext
        t = ctx.res.resolve(fn, e)
        if t.kind == "repo" and len(t.targets) == 1 and isinstance(e.func, ast.Attribute):
            g = t.targets[0]
            base = _ctx_depth_increment(ctx, fn, e.func.value, scope, seen + 1)
            rets = [r for r in walk_local(g.node) if isinstance(r, ast.Return) and isinstance(r.value, ast.Call)
                    and call_name(r.value) == "LocalSynthesisContext"]
            if base is not None and len(rets) == 1:
                env = Env(Facts())
                env.vars["self.depth"] = Lin.sym("D")
                params = g.params[1:]
                a = g.node.args
                defaults = dict(zip([x.arg for x in a.args][len(a.args) - len(a.defaults):], a.defaults))
                bound: dict[str, ast.AST] = dict(defaults)
                for p_, av in zip(params, e.args):
                    bound[p_] = av
                for k in e.keywords:
                    if k.arg:
                        bound[k.arg] = k.value
                for p_, av in bound.items():
                    if isinstance(av, ast.Constant) and isinstance(av.value, bool):
                        env.vars[p_] = B3(av.value)
                for st_ in g.node.body:   # straight-line helper: bind its locals in order
                    if isinstance(st_, ast.Assign) and len(st_.targets) == 1 and isinstance(st_.targets[0], ast.Name):
                        env.vars[st_.targets[0].id] = evaluate(env, st_.value)
                first = rets[0].value.args[0] if rets[0].value.args else None
                v = evaluate(env, first) if first is not None else None
                if isinstance(v, Lin):
                    r = v - Lin.sym("D")
                    return (r + base) if r.is_const() else None
        return None
    return None


def _definitely_not_depth(ctx: Ctx, call: ast.AST) -> bool:
    """The child context is built by LocalSynthesisContext(<first>, ...) whose first argument does not mention .depth at all."""
    for c in ast.walk(call):
        if isinstance(c, ast.Call) and call_name(c) == "LocalSynthesisContext" and c.args:
            first = c.args[0]
            names = {n.attr for n in ast.walk(first) if isinstance(n, ast.Attribute)} | {n.id for n in ast.walk(first) if isinstance(n, ast.Name)}
            if "depth" not in names and any(x in names for x in ("nodes", "expansions")):
                return True
    return False


def creation_increments(ctx: Ctx) -> dict[str, tuple[Optional[Lin], ast.AST, str]]:
    """form -> (increment applied to the depth for the children of that form, node, description).  Obtained by interpreting
    create_node on one symbolic type per form (sa/treemodel.py) with a context at depth 2 and reading the depth of the
    context handed to every recursive creation call (for refinements: the call made by the callback given to generate)."""
    from ..treemodel import (A, ABSTRACT, ANN_INT, ANN_LIST, Budget, LIST_A, PROD, TUPLE_AB, TreeModel, UNION_AB, Obj, create_node_runs)
    fn = ctx.fn(CREATE_NODE)
    model = TreeModel(ctx, fields={PROD: [("f1", A), ("f2", A)]})
    out: dict[str, tuple[Optional[Lin], ast.AST, str]] = {}
    for form, sym in (("tuple", TUPLE_AB), ("list", LIST_A), ("annotated", ANN_INT), ("refined list", ANN_LIST), ("union", UNION_AB), ("abstract", ABSTRACT),
                      ("concrete", PROD)):
        try:
            runs = create_node_runs(ctx, model, sym, depth=2)
        except Budget:
            out[form] = (None, fn.node, "too many interpretations")
            continue
        incs = set()
        node = None
        for trace, rv, notes in runs:
            if any(e.kind == "raise" for e in trace):
                continue
            for e in trace:
                if e.kind == "call" and e.name == "create_node":
                    c_ = e.kwargs.get("context")
                    d_ = c_.fields.get("depth") if isinstance(c_, Obj) else None
                    incs.add(d_ - 2 if isinstance(d_, int) and not isinstance(d_, bool) else None)
                    node = node or e.node
        if not incs:
            continue
        inc = Lin.c(next(iter(incs))) if len(incs) == 1 and None not in incs else None
        out[form] = (inc, node if node is not None else fn.node, norm(node)[:60] if node is not None else form)
    return out


# ------------------------------------------------------------------------------------------- distance increments
def _dist_env() -> Env:
    env = Env(Facts())

    def hook(e_: Env, c: ast.Call):
        nm = call_name(c)
        if nm == "int" and c.args and isinstance(c.args[0], ast.Attribute) and c.args[0].attr == "expansion_depthing":
            return Lin.sym("e")
        if nm == "get_distance_to_terminal":
            return Lin.sym("R")
        if nm in ("max", "min") and len(c.args) == 1 and isinstance(c.args[0], (ast.GeneratorExp, ast.ListComp)):
            inner = evaluate(e_, c.args[0].elt)
            return inner if isinstance(inner, Lin) else Lin.sym("R")
        return None

    def sub(e_: Env, s: ast.Subscript):
        if isinstance(s.value, ast.Attribute) and s.value.attr == "distanceToTerminal":
            return Lin.sym("R")
        return None

    env.hooks.append(hook)
    env.sub_hooks.append(sub)
    return env


def _gdt_model(ctx: Ctx, sym, e_flag: bool):
    """interpret Grammar.get_distance_to_terminal on a symbolic type: table entries are the symbols D(<type>)"""
    from ..modelinterp import Interp, Sym, TypeV, UNKNOWN, Budget
    g = ctx.fn(GDT)

    def atom(it, e, env):
        if isinstance(e, ast.Subscript) and isinstance(e.value, ast.Attribute) and e.value.attr == "distanceToTerminal":
            k = it.ev(e.slice, env, 9)
            if isinstance(k, TypeV):
                return Lin.sym(f"D({k.name})")
        return None

    it = Interp(ctx.prog, g.cls, atom, None, max_depth=6, max_traces=32)
    it.allow_recursion = True
    env = {"self": Sym("self"), g.params[1]: sym, "self.expansion_depthing": e_flag}
    return it.run(g, env)


def distance_increments(ctx: Ctx) -> dict[str, tuple[Optional[Lin], ast.AST, str, Optional[str]]]:
    """form -> (increment of the distance over the inner type(s): a Lin in the symbol e, node, text, aggregator).
    list / tuple / annotated / union: get_distance_to_terminal is interpreted on a symbolic type of that form in both depth
    modes (recursive calls inlined, table entries symbolic); abstract / concrete: the aggregation equations of preprocess."""
    from ..modelinterp import MaxV, UNKNOWN, Budget
    from ..treemodel import A, ANN_INT, ANN_LIST, B, INT, LIST_A, TUPLE_AB, UNION_AB
    out: dict[str, tuple[Optional[Lin], ast.AST, str, Optional[str]]] = {}
    g = ctx.fn(GDT)
    for form, sym, inner in (("list", LIST_A, (A,)), ("tuple", TUPLE_AB, (A, B)), ("annotated", ANN_INT, (INT,)), ("refined list", ANN_LIST, (A,)),
                             ("union", UNION_AB, (A, B))):
        incs = {}
        agg = None
        text = ""
        for e_flag in (False, True):
            try:
                runs = _gdt_model(ctx, sym, e_flag)
            except Budget:
                incs[e_flag] = None
                continue
            vals = []
            for trace, rv, notes in runs:
                if any(x.kind == "raise" for x in trace):
                    continue
                vals.append(rv)
            inc = None
            if len(vals) == 1:
                v = vals[0]
                want = {Lin.sym(f"D({t.name})") for t in inner}
                if isinstance(v, MaxV) and set(v.items) == want and isinstance(v.offset, Lin) and v.offset.is_const():
                    inc, agg = v.offset, v.kind
                elif isinstance(v, Lin) and len(inner) == 1 and (v - Lin.sym(f"D({inner[0].name})")).is_const():
                    inc = v - Lin.sym(f"D({inner[0].name})")
                text = repr(v)[:70]
            incs[e_flag] = inc
        if incs.get(False) is not None and incs.get(True) is not None:
            l = Lin.c(incs[False].const) + Lin.sym("e").scale(incs[True].const - incs[False].const)
            out[form] = (l, g.node, f"{form}: {text}", agg)
        else:
            out[form] = (None, g.node, f"{form}: {text or 'not followed'}", agg)
    # abstract / concrete equations: read off the tables that the interpreted analysis (sa/rules/grammodel.py) ends with on a probe
    # grammar  A -> Lo() | Hi(h: Mid),  Mid(l: Lo),  W(a: Mid, b: Lo)  in both depth modes
    p = ctx.fn(PREPROCESS)
    probe = _probe_equations(ctx)
    if probe is not None:
        for form in ("abstract", "concrete"):
            inc, agg = probe[form]
            out[form] = (inc, p.node, f"{form}: model grammar probe", agg)
        return out
    # preprocess: abstract / concrete equations (aggregations over the table / over get_distance_to_terminal of the fields)

    env0 = _dist_env()
    # preprocess and the helper methods / functions of the grammar module it calls
    srcs = [p]
    for x in walk_local(p.node, include_nested=True):
        if isinstance(x, ast.Call):
            t_ = ctx.res.resolve(p, x)
            if t_.kind == "repo":
                srcs += [g_ for g_ in t_.targets if g_.module is p.module and g_ not in srcs and g_.name not in ("get_distance_to_terminal",)]
    nodes = [n_ for g_ in srcs for n_ in walk_local(g_.node, include_nested=True)]
    for a in nodes:
        if isinstance(a, ast.Assign) and len(a.targets) == 1 and isinstance(a.targets[0], ast.Name) and isinstance(a.value, ast.Call) \
                and call_name(a.value) == "int":
            env0.vars[a.targets[0].id] = evaluate(env0, a.value)
    for c in nodes:
        if not (isinstance(c, ast.Call) and isinstance(c.func, ast.Name) and c.func.id in ("min", "max")):
            continue
        # an aggregate inside an arithmetic expression (1 + max(...)): evaluate the whole expression
        top = c
        while isinstance(parent(top), ast.BinOp):
            top = parent(top)
        if top is not c and len(c.args) == 1 and isinstance(c.args[0], (ast.GeneratorExp, ast.ListComp)):
            v = evaluate(env0.copy(), top)
            if isinstance(v, Lin) and "R" in v.coef and v - Lin.sym("R") != Lin.c(0):
                uses_gdt = any(isinstance(x, ast.Call) and call_name(x) == "get_distance_to_terminal" for x in ast.walk(top))
                out["concrete" if uses_gdt else "abstract"] = (v - Lin.sym("R"), c, norm(top)[:70], c.func.id)
                continue
        cands: list[ast.AST] = []
        args = list(c.args)
        if len(args) == 1 and isinstance(args[0], ast.BinOp) and isinstance(args[0].op, ast.Add):
            args = [args[0].left, args[0].right]
        for a in args:
            if isinstance(a, (ast.GeneratorExp, ast.ListComp)):
                cands.append(a.elt)
            elif isinstance(a, (ast.List, ast.Tuple)):
                cands += list(a.elts)
            else:
                cands.append(a)
        for expr in cands:
            v = evaluate(env0.copy(), expr)
            if not (isinstance(v, Lin) and "R" in v.coef):
                continue
            uses_gdt = any(isinstance(x, ast.Call) and call_name(x) == "get_distance_to_terminal" for x in ast.walk(expr))
            uses_tab = any(isinstance(x, ast.Subscript) and isinstance(x.value, ast.Attribute) and x.value.attr == "distanceToTerminal"
                           for x in ast.walk(expr))
            if v - Lin.sym("R") == Lin.c(0):
                continue   # the running value itself (min(val, ...))
            if uses_gdt:
                out["concrete"] = (v - Lin.sym("R"), c, norm(c)[:70], c.func.id)
            elif uses_tab:
                out["abstract"] = (v - Lin.sym("R"), c, norm(c)[:70], c.func.id)
    return out


def _probe_equations(ctx: Ctx):
    """{'abstract': (increment as a Lin in e, 'min' | 'max'), 'concrete': (...)} from the interpreted analysis, or None"""
    from .grammodel import C, INT, ModelGrammar, interpret, names
    g = ModelGrammar("probe", "A", {
        "A": ("abstract", None, []), "Lo": ("concrete", "A", []), "Hi": ("concrete", "A", [("h", C("Mid"))]),
        "Mid": ("concrete", None, [("l", C("Lo"))]), "W": ("concrete", "A", [("a", C("Mid")), ("b", C("Lo"))]),
    }, ["Lo", "Hi", "W", "Mid"])
    vals = {}
    for e in (0, 1):
        st, why = interpret(ctx, g, e)
        if st is None:
            return None
        D = names(st.get("self.distanceToTerminal"))
        if not isinstance(D, dict) or not all(isinstance(D.get(k), int) for k in ("A", "Lo", "Hi", "Mid", "W")):
            return None
        vals[e] = D
    out = {}
    # abstract: D(A) against its shallowest / deepest production
    res = {}
    for e in (0, 1):
        D = vals[e]
        lo, hi = min(D["Lo"], D["Hi"], D["W"]), max(D["Lo"], D["Hi"], D["W"])
        res[e] = ("min", D["A"] - lo) if D["A"] - lo <= 1 and D["A"] < hi else ("max", D["A"] - hi)
    if res[0][0] != res[1][0]:
        return None
    out["abstract"] = (Lin.c(res[0][1]) + Lin.sym("e").scale(res[1][1] - res[0][1]), res[0][0])
    res = {}
    for e in (0, 1):
        D = vals[e]
        lo, hi = min(D["Mid"], D["Lo"]), max(D["Mid"], D["Lo"])
        res[e] = ("max", D["W"] - hi) if D["W"] > hi else ("min", D["W"] - lo)
    if res[0][0] != res[1][0]:
        return None
    out["concrete"] = (Lin.c(res[0][1]) + Lin.sym("e").scale(res[1][1] - res[0][1]), res[0][0])
    return out


def at_mode(l: Optional[Lin], e: int) -> Optional[int]:
    if l is None:
        return None
    v = l.const + l.coef.get("e", 0) * e
    if set(l.coef) - {"e"}:
        return None
    return int(v)


def table_rule(ctx: Ctx, rid: str, equality: bool) -> None:
    """R1 of C03 (inequalities) / C04 (equalities in default mode)."""
    ci, di = creation_increments(ctx), distance_increments(ctx)
    fn = ctx.fn(CREATE_NODE)
    n = 0
    for form in FORMS:
        c = ci.get(form)
        d = di.get(form)
        if c is None or d is None:
            ctx.ob(rid, fn, fn.node, f"depth bookkeeping for the {form} form", None,
                   f"could not extract {'creation' if c is None else 'distance'} increment for {form}")
            continue
        for e in ((0,) if equality else (0, 1)):
            n += 1
            dc, dd, dt = at_mode(c[0], e), at_mode(d[0], e), TRUE_DELTA[form]
            if dc is None or dd is None:
                definite = c[0] is None and _definitely_not_depth(ctx, c[1])
                ctx.ob(rid, fn, c[1], f"{form}: creation's child depth is context.depth + constant [expansion_depthing={bool(e)}]",
                       False if definite else None,
                       (f"the child context for {form} types ('{c[2]}') takes its depth from something other than context.depth: children "
                        f"are budgeted at an unrelated depth, so valid programs are pruned or the limit is exceeded") if definite else
                       (f"could not extract the child depth for {form} types from '{c[2]}'" if c[0] is None else
                        f"distance increment '{d[2]}' is not affine in the mode flag"))
                continue
            if equality:
                ok = dc == dd == dt
                why = "" if ok else (f"creation charges {dc} level(s) for a {form} but the distance table charges {dd} (true contribution {dt}): "
                                     + ("valid programs that fit the limit are pruned" if dc > dd or dc > dt else "programs deeper than the limit are admitted"))
            elif e == 0:
                ok = dt <= dc <= dd
                why = "" if ok else (f"creation charges {dc} level(s) for a {form} while the distance table promises {dd}: "
                                     + ("a node admitted by the depth filter leaves its children no admissible alternative, so creation fails midway "
                                        "(AssertionError from choice([])) at limits the grammar minimum says are feasible" if dc > dd else
                                        "children are created without charging the level they occupy: the depth limit can be exceeded"))
            else:
                ok = dc <= dd
                why = "" if ok else f"with expansion_depthing creation charges {dc} for a {form} but the table promises only {dd}: creation can fail midway"
            ctx.ob(rid, fn, c[1], f"{form}: creation increment vs distance increment [expansion_depthing={bool(e)}]", ok, why,
                   witness={"form": form, "creation": dc, "distance": dd, "true": dt, "mode": e})
    ctx.floor(rid, n, 6, "form x mode table entries")


# ------------------------------------------------------------------------------------------- chooser filters
def _cond_env() -> tuple[Env, Lin, Lin, Lin]:
    env = Env(Facts())
    d, M, c = Lin.sym("d"), Lin.sym("M"), Lin.sym("c")
    env.facts.ints |= {"d", "M", "c"}

    def hook(e_: Env, call: ast.Call):
        if call_name(call) == "get_distance_to_terminal":
            return d
        return None

    env.hooks.append(hook)
    env.vars["self.max_depth"] = M
    env.vars["ctx.depth"] = c
    return env, d, M, c


def _dnf(e: ast.AST) -> list[list[ast.AST]]:
    if isinstance(e, ast.BoolOp) and isinstance(e.op, ast.Or):
        out = []
        for v in e.values:
            out += _dnf(v)
        return out
    if isinstance(e, ast.BoolOp) and isinstance(e.op, ast.And):
        res = [[]]
        for v in e.values:
            res = [a + b for a in res for b in _dnf(v)]
        return res
    return [[e]]


class ListSrc:
    """the list of alternatives offered to the chooser"""
    def __init__(self, name: str):
        self.name = name

    def __repr__(self):
        return f"<offered {self.name}>"


class FiltV:
    """a list obtained from the offered alternatives by comprehension filters (a conjunction of conditions, each with the
    environment it was evaluated in); nonempty is what the path conditions say about it"""
    def __init__(self, conds: list, nonempty: Optional[bool] = None, label: str = "", node: Any = None):
        self.conds, self.nonempty, self.label, self.node = conds, nonempty, label, node

    def with_truth(self, polarity: bool) -> "FiltV":
        return FiltV(self.conds, polarity, self.label, self.node)

    def __repr__(self):
        return f"<filtered {' & '.join(norm(c[0])[:50] for c in self.conds)}>"


def _filt_of(atom: ast.AST, snap: Env):
    """the filtered list L when atom is  x in L  /  x not in L  with L bound to a FiltV in the snapshot"""
    if isinstance(atom, ast.Compare) and len(atom.ops) == 1 and isinstance(atom.ops[0], ast.In) and isinstance(atom.comparators[0], ast.Name):
        v = snap.vars.get(atom.comparators[0].id)
        if isinstance(v, FiltV):
            return v
    return None


def expand_dnf(cond: ast.AST, snap: Env, depth: int = 0) -> list[list[tuple[ast.AST, Env]]]:
    """disjunctive normal form of a filter condition as lists of (atom, environment); membership in another filtered list is
    replaced by that list's own conditions"""
    out = []
    for conj in _dnf(cond):
        combos: list[list[tuple[ast.AST, Env]]] = [[]]
        for atom in conj:
            fv = _filt_of(atom, snap) if depth < 3 else None
            if fv is not None:
                alts: list[list[tuple[ast.AST, Env]]] = [[]]
                for c2, s2 in fv.conds:
                    alts = [a + b for a in alts for b in expand_dnf(c2, s2, depth + 1)]
                combos = [a + b for a in combos for b in alts]
            else:
                combos = [a + [(atom, snap)] for a in combos]
        out += combos
    return out


def cond_holds(cond: ast.AST, snap: Env, facts: Facts, depth: int = 0) -> bool:
    from ..absint import truth
    if isinstance(cond, ast.BoolOp):
        rs = [cond_holds(v, snap, facts, depth) for v in cond.values]
        return all(rs) if isinstance(cond.op, ast.And) else any(rs)
    fv = _filt_of(cond, snap) if depth < 3 else None
    if fv is not None:
        return all(cond_holds(c2, s2, facts, depth + 1) for c2, s2 in fv.conds)
    e2 = snap.copy()
    e2.facts = facts
    return truth(e2, cond).v is True


class ParamV:
    """another parameter of the chooser (e.g. the requested type)"""
    def __init__(self, name: str):
        self.name = name

    def __repr__(self):
        return f"<parameter {self.name}>"


class OrList:
    """value of  A or B  over lists: A when it is non-empty, otherwise B"""
    def __init__(self, parts: list):
        self.parts = parts

    def with_truth(self, polarity: bool) -> "OrList":
        return self

    def __repr__(self):
        return " or ".join(map(repr, self.parts))


class ChoiceOf:
    def __init__(self, lst: Any, node: ast.AST):
        self.lst, self.node = lst, node


def chooser_instances(prog, meth: str = "choose_production_alternatives") -> list[FunctionInfo]:
    """Every chooser of the decider hierarchy *as it runs in a class*: the definitions of *meth*, plus - for a class that inherits
    the method but overrides a hook the inherited body calls through self (template method) - the inherited definition with that
    class as receiver (a copy of the FunctionInfo whose .cls is the receiving class, so that helper calls resolve from there)."""
    import dataclasses
    from ..frontend import is_stub
    res: list[FunctionInfo] = []
    for c in prog.subclasses(DECIDER, strict=True):
        f = c.methods.get(meth)
        if f is not None:
            if not is_stub(f.node):
                res.append(f)
            continue
        g = prog.lookup_method(c, meth)
        if g is None or g.cls is None or is_stub(g.node):
            continue
        seen: set[str] = set()
        todo = [g]
        overridden = False
        while todo:
            h = todo.pop()
            for x in walk_local(h.node):
                if isinstance(x, ast.Call) and is_self_attr(x.func) and x.func.attr not in seen:
                    seen.add(x.func.attr)
                    t = prog.lookup_method(c, x.func.attr)
                    if t is None:
                        continue
                    if prog.lookup_method(g.cls, x.func.attr) is not t:
                        overridden = True
                    todo.append(t)
        if overridden:
            res.append(dataclasses.replace(g, cls=c))
    return res


def _decider_paths(ctx: Ctx, f: FunctionInfo):
    """abstractly interpret a chooser: offered list -> filtered lists -> random.choice(<list>) / <list>[index]"""
    from ..absint import interp, SeqV
    from ..inline import make_inline_hook
    env = Env(Facts())
    d, M, c = Lin.sym("d"), Lin.sym("M"), Lin.sym("c")
    env.facts.ints |= {"d", "M", "c"}
    ps = [p_ for p_ in f.params if p_ != "self"]
    alts_p = "alternatives" if "alternatives" in ps else (ps[-2] if len(ps) >= 2 else ps[0])
    ctx_p = "ctx" if "ctx" in ps else ps[-1]
    env.vars["self.max_depth"] = M
    env.vars[f"{ctx_p}.depth"] = c
    env.vars[alts_p] = ListSrc(alts_p)
    for p_ in ps:
        if p_ not in (alts_p, ctx_p):
            env.vars[p_] = ParamV(p_)

    # local names bound to the distance method (distance = self.grammar.get_distance_to_terminal)
    dist_aliases = {a.targets[0].id for a in walk_local(f.node) if isinstance(a, ast.Assign) and len(a.targets) == 1
                    and isinstance(a.targets[0], ast.Name) and isinstance(a.value, ast.Attribute) and a.value.attr == "get_distance_to_terminal"}

    def _is_distance_helper(g: FunctionInfo) -> bool:
        """a method m(self, ty) that answers get_distance_to_terminal(ty), possibly through a table of its own that it fills with exactly that
        (self.T[ty] = <grammar>.get_distance_to_terminal(ty); return self.T[ty]) - a memo in front of the grammar's accessor"""
        ps_ = [q for q in g.params if q != "self"]
        if len(ps_) != 1 or not isinstance(g.node, ast.FunctionDef):
            return False
        key = ps_[0]

        def is_dist_call(x) -> bool:
            return isinstance(x, ast.Call) and call_name(x) == "get_distance_to_terminal" and len(x.args) == 1 \
                and isinstance(x.args[0], ast.Name) and x.args[0].id == key

        def is_table_read(x) -> bool:
            if isinstance(x, ast.Subscript) and is_self_attr(x.value) and isinstance(x.slice, ast.Name) and x.slice.id == key:
                return True
            return isinstance(x, ast.Call) and isinstance(x.func, ast.Attribute) and x.func.attr in ("get", "setdefault") and is_self_attr(x.func.value) \
                and len(x.args) == 2 and isinstance(x.args[0], ast.Name) and x.args[0].id == key and is_dist_call(x.args[1])
        rets = [r.value for r in walk_local(g.node) if isinstance(r, ast.Return)]
        if not rets or any(r is None or not (is_dist_call(r) or is_table_read(r)) for r in rets):
            return False
        if not any(is_dist_call(x) for x in walk_local(g.node)):
            return False
        for a_ in walk_local(g.node):
            if isinstance(a_, ast.Assign):
                for t_ in a_.targets:
                    if isinstance(t_, ast.Subscript) and not (is_self_attr(t_.value) and isinstance(t_.slice, ast.Name) and t_.slice.id == key and is_dist_call(a_.value)):
                        return False
                    if not isinstance(t_, ast.Subscript):
                        return False
            elif isinstance(a_, (ast.AugAssign, ast.AnnAssign, ast.For, ast.While, ast.Try, ast.With)):
                return False
        return True

    def call_hook(e_: Env, call: ast.Call):
        nm = call_name(call)
        if nm == "get_distance_to_terminal" or (isinstance(call.func, ast.Name) and call.func.id in dist_aliases):
            return d
        if is_self_attr(call.func) and f.cls is not None and len(call.args) == 1 and not call.keywords:
            g_ = ctx.prog.lookup_method(f.cls, call.func.attr)
            if g_ is not None and _is_distance_helper(g_):
                return d
        if nm in ("choice", "choice_weighted") and call.args:
            return ChoiceOf(evaluate(e_, call.args[0]), call)
        if nm in ("list", "sorted", "tuple") and len(call.args) == 1:
            v = evaluate(e_, call.args[0])
            if isinstance(v, (ListSrc, FiltV)):
                return v
        return None

    def comp_hook(e_: Env, comp: ast.AST):
        if len(comp.generators) != 1:
            return None
        g = comp.generators[0]
        src = evaluate(e_, g.iter)
        if not isinstance(src, (ListSrc, FiltV)) or not isinstance(g.target, ast.Name):
            return None
        if not (isinstance(comp.elt, ast.Name) and comp.elt.id == g.target.id):
            return Opaque("comprehension maps the alternatives to other values")
        snap = e_.copy()
        snap.vars.pop(g.target.id, None)
        prev = list(src.conds) if isinstance(src, FiltV) else []
        cond = g.ifs[0] if len(g.ifs) == 1 else ast.BoolOp(op=ast.And(), values=list(g.ifs)) if g.ifs else None
        if cond is None:
            return src
        return FiltV(prev + [(cond, snap)], None, norm(cond)[:60], comp)

    def sub_hook(e_: Env, sub: ast.Subscript):
        if isinstance(sub.slice, ast.Slice):
            return None
        v = evaluate(e_, sub.value)
        if isinstance(v, (ListSrc, FiltV, OrList)):
            return ChoiceOf(v, sub)   # an element of that list
        if isinstance(parent(sub), ast.Return):
            return ChoiceOf(v, sub)   # what is returned is an element of some other container
        return None

    def bool_hook(e_: Env, b: ast.BoolOp):
        if not isinstance(b.op, ast.Or):
            return None
        vals = [evaluate(e_, v) for v in b.values]
        if all(isinstance(v, (ListSrc, FiltV, OrList)) or (isinstance(v, SeqV)) for v in vals) and any(isinstance(v, (ListSrc, FiltV, OrList)) for v in vals):
            parts = []
            for v in vals:
                parts += v.parts if isinstance(v, OrList) else [v]
            return OrList(parts)
        return None

    env.hooks.append(call_hook)
    env.sub_hooks.append(sub_hook)
    env.comp_hooks.append(comp_hook)
    env.bool_hooks.append(bool_hook)
    ih = make_inline_hook(ctx.prog, f.cls, f.module, skip=("get_distance_to_terminal",))
    env.hooks.append(ih)
    env.assume_hooks.append(ih.assume)
    outs = interp(f.node.body, env)
    return outs, (d, M, c)


def filter_rule(ctx: Ctx, rid: str, require_equivalence_everywhere: bool = False) -> None:
    """Every depth-limited chooser is abstractly interpreted (helpers inlined): the list handed to random.choice on each path is
    a chain of comprehension filters over the offered alternatives.  Soundness: every disjunct of the filters, under the path
    facts, entails distance <= max_depth - ctx.depth.  Completeness (no valid limit fails, every valid program reachable):
    unless the path conditions already say the list is non-empty, every alternative with distance <= max_depth - ctx.depth
    passes the filters."""
    from ..absint import truth, SeqV
    prog = ctx.prog
    n = 0
    for f in chooser_instances(prog):
        cls = f.cls
        reads_limit = any(isinstance(x, ast.Attribute) and x.attr == "max_depth" for x in walk_local(f.node))
        if not reads_limit:
            # through helpers?
            for x in walk_local(f.node):
                if isinstance(x, ast.Call) and isinstance(x.func, ast.Attribute) and isinstance(x.func.value, ast.Name) and x.func.value.id == "self":
                    g = prog.lookup_method(cls, x.func.attr)
                    if g is not None and any(isinstance(y, ast.Attribute) and y.attr == "max_depth" for y in walk_local(g.node)):
                        reads_limit = True
        if not reads_limit:
            continue
        outs, (d, M, c) = _decider_paths(ctx, f)
        st_ = {"sound": None, "complete": None, "und": None}
        seen_lists: set[str] = set()
        npaths = 0

        def _check_one(lst, o):
            if isinstance(lst, SeqV) and isinstance(lst.length, Lin) and lst.length.is_const() and lst.length.const == 0:
                return   # choice([]) is reached only when the (infeasible) 'non-empty' branch of an empty literal is taken
            if isinstance(lst, ListSrc):
                st_["sound"] = st_["sound"] or ("the offered alternatives are handed to random.choice unfiltered", None, o)
                return
            if not isinstance(lst, FiltV):
                st_["und"] = f"the list handed to random.choice is not followed ({lst!r})"
                return
            seen_lists.add(repr(lst))
            # --- soundness: each combination of disjuncts entails d <= M - c
            combos = [[]]
            for cond, snap in lst.conds:
                combos = [a + conj for a in combos for conj in expand_dnf(cond, snap)]
            for combo in combos:
                facts = o.env.facts.copy()
                opaque_atom = None
                for atom, snap in combo:
                    e2 = snap.copy()
                    e2.facts = facts
                    if isinstance(atom, ast.Compare) and len(atom.ops) == 1 and isinstance(atom.ops[0], (ast.Lt, ast.LtE, ast.Gt, ast.GtE, ast.Eq)) \
                            and not (isinstance(evaluate(e2, atom.left), Lin) and isinstance(evaluate(e2, atom.comparators[0]), Lin)):
                        opaque_atom = atom       # an arithmetic condition the engine cannot evaluate: nothing may be concluded from it
                    assume(e2, atom, True)
                if not entails_ge0(facts, M - c - d) and opaque_atom is not None:
                    st_["und"] = st_["und"] or f"the filter condition '{norm(opaque_atom)[:60]}' is not followed"
                    continue
                if not entails_ge0(facts, M - c - d):
                    wit = find_model(facts, M - c - d)
                    st_["sound"] = st_["sound"] or (f"the condition '{' and '.join(norm(a) for a, _ in combo)[:160]}' admits an alternative whose "
                                                    f"minimum depth exceeds max_depth - ctx.depth (e.g. {wit}): the depth limit can be exceeded / "
                                                    f"creation fails deeper down", wit, o)
            # --- completeness unless known non-empty
            if lst.nonempty is not True:
                facts = o.env.facts.copy()
                facts.add_ge(M - c, d)
                for cond, snap in lst.conds:
                    e2 = snap.copy()
                    e2.facts = facts
                    if not cond_holds(cond, snap, facts):
                        cmp_ = [x for x in ast.walk(cond) if isinstance(x, ast.Compare) and len(x.ops) == 1 and isinstance(x.ops[0], (ast.Lt, ast.LtE, ast.Gt, ast.GtE, ast.Eq))]
                        if any(not (isinstance(evaluate(e2, x.left), Lin) and isinstance(evaluate(e2, x.comparators[0]), Lin)) for x in cmp_):
                            st_["und"] = st_["und"] or f"the filter condition '{norm(cond)[:60]}' is not followed"
                            continue
                        wit = None
                        if isinstance(cond, ast.Compare) and len(cond.ops) == 1:
                            a_, b_ = evaluate(e2, cond.left), evaluate(e2, cond.comparators[0])
                            vd = prove_cmp(facts, a_, cond.ops[0], b_) if isinstance(a_, Lin) and isinstance(b_, Lin) else None
                            wit = vd.witness if vd is not None else None
                        st_["complete"] = st_["complete"] or (
                            f"on the path [{'; '.join(o.conds)[:100]}] the last-resort list keeps only alternatives with "
                            f"'{norm(cond)[:100]}', which is stricter than 'distance <= max_depth - ctx.depth' (e.g. {wit}): "
                            f"an alternative that exactly fits the remaining depth is pruned, so limits equal to the "
                            f"grammar minimum fail and valid programs become unreachable", wit, o)

        for o in outs:
            if o.kind == "raise":
                continue
            if o.kind != "return" or not isinstance(o.value, ChoiceOf):
                st_["und"] = f"a path ends with {o.kind} / a value that is not random.choice(<list>) [{'; '.join(o.conds)[:80]}]"
                continue
            lst = o.value.lst
            npaths += 1
            if isinstance(lst, OrList):
                # A or B: every part must be sound; the last part is what remains when the others are empty
                parts = [p_ for p_ in lst.parts if not isinstance(p_, SeqV)]
                todo = [p_.with_truth(True) if isinstance(p_, FiltV) else p_ for p_ in parts[:-1]] + parts[-1:]
            else:
                todo = [lst]
            for one in todo:
                _check_one(one, o)
        sound_bad, complete_bad, undecided = st_["sound"], st_["complete"], st_["und"]
        n += npaths
        if (npaths == 0 or undecided) and not sound_bad and not complete_bad:
            # the affine engine does not follow this spelling (explicit loops with append / continue, aliases): decide the same two
            # clauses on the exhaustive small-scope model of the chooser (sa/rules/choosermodel.py)
            from .choosermodel import chooser_verdicts
            exact = cls.name == "MaxDepthDecider"      # grow offers exactly what fits; its subclasses prefer a subset
            snd, cmpl, _m, nm_ = chooser_verdicts(ctx, f, exact=exact)
            if snd[0] is not None and cmpl[0] is not None:
                n += nm_
                ctx.ob(rid, f, f.node, f"{cls.name}: every alternative that can be chosen fits the remaining depth", snd[0], snd[1], witness={"model_scenarios": nm_})
                ctx.ob(rid, f, f.node, f"{cls.name}: when nothing else is left, every alternative that still fits can be chosen", cmpl[0], cmpl[1],
                       witness={"model_scenarios": nm_})
                continue
        if npaths == 0:
            ctx.ob(rid, f, f.node, f"{cls.name}: every alternative that can be chosen fits the remaining depth", None,
                   undecided or "no path reaches random.choice")
            continue
        ctx.ob(rid, f, f.node, f"{cls.name}: every alternative that can be chosen fits the remaining depth",
               False if sound_bad else (None if undecided else True),
               sound_bad[0] if sound_bad else (undecided or ""), witness=sound_bad[1] if sound_bad else {"paths": npaths, "lists": len(seen_lists)})
        ctx.ob(rid, f, f.node, f"{cls.name}: when nothing else is left, every alternative that still fits can be chosen",
               False if complete_bad else (None if undecided else True),
               complete_bad[0] if complete_bad else (undecided or ""), witness=complete_bad[1] if complete_bad else {"paths": npaths})
    ctx.floor(rid, n, 6, "interpreted chooser paths ending in random.choice")


# ------------------------------------------------------------------------------------------- validate
def _init_model(ctx: Ctx, c, init: FunctionInfo) -> tuple[Optional[bool], str]:
    """interpret <Decider>.__init__(..., max_depth=7) (constructors of base classes inlined): on every path self.max_depth
    ends up being the requested limit and validate() is called after it was stored"""
    from ..modelinterp import Budget, Effect, Interp, Sym, UNKNOWN, _NONE
    state = {"validated_with": []}

    def call_model(it, call, env, args, kwargs):
        if call_name(call) == "validate" and is_self_attr(call.func):
            state["validated_with"].append(env.get("self.max_depth", "unset"))
            return _NONE
        return None

    it = Interp(ctx.prog, c, lambda *_: None, call_model, max_depth=5, max_traces=16)
    it.on_start = lambda: state.__setitem__("validated_with", [])
    a = init.node.args
    names = [x.arg for x in a.posonlyargs + a.args + a.kwonlyargs][1:]
    if "max_depth" not in names:
        return None, "the constructor has no max_depth parameter"
    env = {"self": Sym("self")}
    for p_ in names:
        env[p_] = 7 if p_ == "max_depth" else Sym(p_)
    try:
        runs = it.run(init, env)
    except Budget:
        return None, "too many interpretations"
    for (trace, rv, notes), env_after in zip(runs, it.envs):
        if any(e.kind == "raise" for e in trace):
            continue
        got = env_after.get("self.max_depth", "unset")
        if got == "unset" or got is UNKNOWN:
            return (None if got is UNKNOWN else False), "the constructor does not store the requested limit in self.max_depth"
        if got != 7:
            return False, (f"constructed with max_depth=7 the decider works with max_depth={got!r}: the requested limit is not the one that is "
                           f"validated and enforced (an argument is not forwarded to the base constructor)")
        if not state["validated_with"]:
            return False, "the depth limit is not validated at construction: an infeasible limit fails midway through creation instead"
        if state["validated_with"][-1] != 7:
            return False, f"validate() runs while self.max_depth is {state['validated_with'][-1]!r}, not the requested limit"
    return True, ""


def validate_rule(ctx: Ctx, rid: str) -> None:
    """Every decider class that takes a depth limit (validate found through the hierarchy, mixins included): __init__ calls
    validate unconditionally; validate is abstractly interpreted (locals, helper calls): every raising path entails
    max_depth < grammar minimum, every returning path entails max_depth >= grammar minimum, and what is raised is the library
    error."""
    from ..absint import interp
    from ..inline import make_inline_hook
    prog = ctx.prog
    n = 0
    done: set[str] = set()
    for c in prog.subclasses(DECIDER):
        v = prog.lookup_method(c, "validate")
        if v is None or v.cls is None or v.cls.fullname == DECIDER:
            continue
        init = prog.lookup_method(c, "__init__")
        n += 1
        ok, why = _init_model(ctx, c, init) if init is not None else (False, "no constructor")
        ctx.ob(rid, init or v, init.node if init else v.node, f"{c.name}.__init__ stores the requested limit and validates it on every path", ok, why)
        if v.fullname in done:
            continue
        done.add(v.fullname)
        owner = v.cls.name
        env = Env(Facts())
        M, m = Lin.sym("M"), Lin.sym("m")
        env.facts.ints |= {"M", "m"}
        env.vars["self.max_depth"] = M
        env.hooks.append(lambda e_, cl: m if call_name(cl) == "get_min_tree_depth" else None)
        env.hooks.append(make_inline_hook(prog, c, v.module, skip=("get_min_tree_depth",)))
        body_ = v.node.body
        stmts_ = [b_ for b_ in body_ if not (isinstance(b_, ast.Expr) and isinstance(b_.value, ast.Constant))]
        vnode = v
        if len(stmts_) == 1 and isinstance(stmts_[0], (ast.Expr, ast.Return)) and isinstance(stmts_[0].value, ast.Call) and isinstance(stmts_[0].value.func, ast.Name):
            # validate delegates to a module-level function (shared by several deciders): that function is analysed with the arguments bound
            dcall = stmts_[0].value
            full_ = prog.resolve_name(v.module, dcall.func.id)
            g_ = prog.functions.get(full_) if full_ else None
            if g_ is not None and g_.cls is None and isinstance(g_.node, ast.FunctionDef):
                for p_, a_ in list(zip(g_.params, dcall.args)) + [(k_.arg, k_.value) for k_ in dcall.keywords if k_.arg in g_.params]:
                    if is_self_attr(a_, "max_depth"):
                        env.vars[p_] = M
                body_, vnode = g_.node.body, g_
        outs = interp(body_, env)
        raising = [o for o in outs if o.kind == "raise"]
        passing = [o for o in outs if o.kind in ("return", "fallthrough")]
        other = [o for o in outs if o.kind == "unsupported"]
        if other or not raising:
            ctx.ob(rid, v, v.node, f"{owner}.validate rejects infeasible limits", None if other else False,
                   "validate never raises" if not other else f"validate contains a construct the interpreter does not follow ({norm(other[0].node)[:50]})")
            continue
        a_bad = b_bad = None
        for o in raising:
            if not entails_ge0(o.env.facts, m - Lin.c(1) - M):
                wit = find_model(o.env.facts, m - Lin.c(1) - M)
                a_bad = a_bad or (f"the path [{'; '.join(o.conds)[:120]}] raises although the limit can be feasible (e.g. {wit}: max_depth equal "
                                  f"to the grammar's minimum depth)", wit)
        for o in passing:
            if not entails_ge0(o.env.facts, M - m):
                wit = find_model(o.env.facts, M - m)
                b_bad = b_bad or (f"the path [{'; '.join(o.conds)[:120] or 'unconditional'}] accepts a limit below the grammar minimum "
                                  f"(e.g. {wit}): creation then fails midway", wit)
        n += 1
        ctx.ob(rid, v, v.node, f"{owner}.validate raises only for infeasible limits (max_depth < grammar minimum)", a_bad is None,
               a_bad[0] if a_bad else "", witness=a_bad[1] if a_bad else None)
        n += 1
        ctx.ob(rid, v, v.node, f"{owner}.validate raises for every infeasible limit", b_bad is None,
               b_bad[0] if b_bad else "", witness=b_bad[1] if b_bad else None)
        # the raised error is the library's
        for r in [x for x in walk_local(vnode.node) if isinstance(x, ast.Raise)]:
            d = dotted(r.exc.func if isinstance(r.exc, ast.Call) else r.exc) if r.exc is not None else None
            okk = d is not None and d.split(".")[-1] == "GeneticEngineError"
            ctx.ob(rid, v, r, f"{owner}.validate raises the library error", okk, "" if okk else f"raises {d}")
        # ... also when the rejection is actually executed: validate is interpreted (finite model, strict table lookups) with a
        # limit below the minimum, for a grammar whose start symbol is abstract (it has productions) and for one whose start symbol is
        # a concrete class (the production table has no entry for it); every run must end in the library's error
        n += 1
        verdict, why = _validate_rejects(ctx, c, v)
        ctx.ob(rid, v, v.node, f"{owner}.validate rejects an infeasible limit with the library error on every grammar shape", verdict, why)
    ctx.floor(rid, n, 4, "validate obligations")


def _validate_rejects(ctx: Ctx, c, v) -> tuple:
    from ..modelinterp import Budget, Interp, Sym, UNKNOWN
    prog = ctx.prog
    S, P1, P2 = Sym("START"), Sym("P1"), Sym("P2")
    und = None
    for shape, table in (("an abstract start symbol", {"START": [P1, P2]}), ("a concrete start symbol", {})):
        for minimum in (3, 1000000):
            def call_model(it, call, env, args, kwargs, minimum=minimum):
                nm = call_name(call)
                if nm == "get_min_tree_depth":
                    return minimum
                if nm == "get_distance_to_terminal" and len(args) == 1:
                    return {"START": minimum, "P1": minimum, "P2": minimum + 1}.get(getattr(args[0], "tag", None), UNKNOWN)
                if nm == "get_max_node_depth":
                    return minimum + 1
                return None
            it = Interp(prog, c, lambda *_: None, call_model, max_depth=6, max_traces=8)
            it.strict_keys = True
            it.heap[("grammar", "alternatives")] = dict(table)
            it.heap[("grammar", "starting_symbol")] = S
            it.heap[("grammar", "all_nodes")] = [S, P1, P2] if table else [S]
            env = {"self": Sym("self"), "self.max_depth": 1, "self.grammar": Sym("grammar"), "self.random": Sym("random")}
            try:
                runs = it.run(v, env)
            except Budget:
                und = und or "too many interpretations"
                continue
            for trace, rv, notes in runs:
                raises = [e for e in trace if e.kind == "raise"]
                if notes:
                    und = und or notes[0]
                elif not raises:
                    return False, f"with a limit of 1, a grammar minimum of {minimum} and {shape} validate returns: the infeasible limit is accepted"
                else:
                    name = raises[-1].name.split(":")[0].split("(")[0].strip()
                    cls_ = next((k for k in prog.classes.values() if k.name == name), None)
                    lib = name == "GeneticEngineError" or (cls_ is not None and prog.is_subclass(cls_, "geneticengine.exceptions.GeneticEngineError"))
                    if not lib:
                        return False, (f"with a limit of 1, a grammar minimum of {minimum} and {shape} validate fails with {raises[-1].name[:60]} instead of the "
                                       f"library's error: callers that handle the library error (the initializers that raise the limit step by step) crash")
    return (None, und) if und else (True, "")


# ------------------------------------------------------------------------------------------- AND / OR polarity
def polarity_rule(ctx: Ctx, rid: str, sides: tuple = ("and", "or")) -> None:
    """AND forms (tuple, concrete production: every part is built) must aggregate minimum depths with max; OR forms
    (union, abstract: one alternative is built) with min; updates only decrease a value (descent from INF)."""
    di = distance_increments(ctx)
    g = ctx.fn(GDT)
    p = ctx.fn(PREPROCESS)
    want = {"tuple": ("and", "max"), "concrete": ("and", "max"), "union": ("or", "min"), "abstract": ("or", "min")}
    n = 0
    for form, (side, agg) in want.items():
        if side not in sides:
            continue
        d = di.get(form)
        if d is None:
            ctx.ob(rid, g, g.node, f"aggregation for the {form} form", None, "not found")
            continue
        n += 1
        got = d[3]
        ok = got == agg
        owner = p if form in ("abstract", "concrete") else g
        if side == "and":
            why = (f"the minimum depth of a {form} is aggregated with {got}() over its parts, but every part is built: the distance is "
                   f"under-estimated, productions are admitted that cannot fit and programs exceed the limit / creation fails midway")
        else:
            why = (f"the minimum depth of a {form} is aggregated with {got}() over its alternatives, but only one alternative is built: "
                   f"the reported minimum depth is too large (U(u: Union[Mid, int]) is reported at 3 although U(u=0) has depth 1) and feasible "
                   f"limits are rejected")
        ctx.ob(rid, owner, d[1], f"{form} ({side.upper()} form) aggregates with {agg}", ok, "" if ok else why,
               witness={"form": form, "aggregator": got, "expected": agg})
    if "or" in sides:
        # monotone descent: the stored value only decreases
        fns_ = [p]
        for x in walk_local(p.node, include_nested=True):
            if isinstance(x, ast.Call) and isinstance(x.func, ast.Attribute) and isinstance(x.func.value, ast.Name) and x.func.value.id == "self" \
                    and p.cls is not None:
                h_ = ctx.prog.lookup_method(p.cls, x.func.attr)
                if h_ is not None and h_ not in fns_ and any(isinstance(w_, ast.While) for w_ in ancestors(x)):
                    fns_.append(h_)
        upd = [(f_, a) for f_ in fns_ for a in walk_local(f_.node) if isinstance(a, ast.Assign) and isinstance(a.targets[0], ast.Subscript)
               and isinstance(a.targets[0].value, ast.Attribute) and a.targets[0].value.attr == "distanceToTerminal"
               and (f_ is not p or any(isinstance(x, ast.While) for x in ancestors(a)))]
        for f_, a in upd:
            n += 1
            gs = guards(a, stop=f_.node)
            ok = any(isinstance(t, ast.Compare) and isinstance(t.ops[0], (ast.Lt, ast.Gt)) and pol for t, pol in gs)
            ctx.ob(rid, p, a, "fixpoint update applied only when the value decreases", ok,
                   "" if ok else "the distance table is overwritten without the 'new < old' test: the iteration is not a monotone descent")
    ctx.floor(rid, n, 2 if sides == ("and",) else 4, "aggregation sites")
