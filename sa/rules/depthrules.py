"""Shared rules about depth bookkeeping and grammar analysis (used by C03, C04, C05)."""
from __future__ import annotations

import ast
from typing import Any, Optional

from ..absint import B3, Env, Facts, Lin, Opaque, assume, entails_ge0, evaluate, find_model, prove_cmp, HOLDS, FAILS
from ..astutil import call_name, guards, is_self_attr
from ..dispatch import Branch, chain, classify, dispatch_chains
from ..frontend import AnalysisError, FunctionInfo, ancestors, dotted, norm, parent, walk_local
from ..report import Ctx
from .common import DECIDER

CREATE_NODE = "geneticengine.representations.tree.initializations:create_node"
GDT = "geneticengine.grammar.grammar:Grammar.get_distance_to_terminal"
PREPROCESS = "geneticengine.grammar.grammar:Grammar.preprocess"
FORMS = ("tuple", "list", "annotated", "union", "abstract", "concrete")
TRUE_DELTA = {"tuple": 0, "list": 0, "annotated": 0, "union": 0, "abstract": 0, "concrete": 1}  # default depth mode


# ------------------------------------------------------------------------------------------- creation increments
def _ctx_depth_increment(ctx: Ctx, fn: FunctionInfo, e: ast.AST, scope: ast.AST, seen: int = 0) -> Optional[Lin]:
    """increment of .depth of the context expression *e* relative to the parameter 'context'"""
    if isinstance(e, ast.Name):
        if e.id == "context":
            return Lin.c(0)
        defs = [a for a in ast.walk(scope) if isinstance(a, ast.Assign) and any(isinstance(t, ast.Name) and t.id == e.id for t in a.targets)]
        if len(defs) == 1 and seen < 3:
            return _ctx_depth_increment(ctx, fn, defs[0].value, scope, seen + 1)
        return None
    if isinstance(e, ast.Call):
        nm = call_name(e)
        if nm == "LocalSynthesisContext":
            first = e.args[0] if e.args else next((k.value for k in e.keywords if k.arg == "depth"), None)
            if first is None:
                return None
            env = Env(Facts())
            env.vars["context.depth"] = Lin.sym("D")
            v = evaluate(env, first)
            if isinstance(v, Lin):
                r = v - Lin.sym("D")
                return r if r.is_const() else None
            return None
        # helper method on the context (e.g. context.expand(...)) returning a new LocalSynthesisContext
        t = ctx.res.resolve(fn, e)
        if t.kind == "repo" and len(t.targets) == 1 and isinstance(e.func, ast.Attribute):
            g = t.targets[0]
            base = _ctx_depth_increment(ctx, fn, e.func.value, scope, seen + 1)
            rets = [r for r in walk_local(g.node) if isinstance(r, ast.Return) and isinstance(r.value, ast.Call)
                    and call_name(r.value) == "LocalSynthesisContext"]
            if base is not None and len(rets) == 1:
                env = Env(Facts())
                env.vars["self.depth"] = Lin.sym("D")
                params = g.params[1:]
                a = g.node.args
                defaults = dict(zip([x.arg for x in a.args][len(a.args) - len(a.defaults):], a.defaults))
                bound: dict[str, ast.AST] = dict(defaults)
                for p_, av in zip(params, e.args):
                    bound[p_] = av
                for k in e.keywords:
                    if k.arg:
                        bound[k.arg] = k.value
                for p_, av in bound.items():
                    if isinstance(av, ast.Constant) and isinstance(av.value, bool):
                        env.vars[p_] = B3(av.value)
                for st_ in g.node.body:   # straight-line helper: bind its locals in order
                    if isinstance(st_, ast.Assign) and len(st_.targets) == 1 and isinstance(st_.targets[0], ast.Name):
                        env.vars[st_.targets[0].id] = evaluate(env, st_.value)
                first = rets[0].value.args[0] if rets[0].value.args else None
                v = evaluate(env, first) if first is not None else None
                if isinstance(v, Lin):
                    r = v - Lin.sym("D")
                    return (r + base) if r.is_const() else None
        return None
    return None


def _definitely_not_depth(ctx: Ctx, call: ast.AST) -> bool:
    """The child context is built by LocalSynthesisContext(<first>, ...) whose first argument does not mention .depth at all."""
    for c in ast.walk(call):
        if isinstance(c, ast.Call) and call_name(c) == "LocalSynthesisContext" and c.args:
            first = c.args[0]
            names = {n.attr for n in ast.walk(first) if isinstance(n, ast.Attribute)} | {n.id for n in ast.walk(first) if isinstance(n, ast.Name)}
            if "depth" not in names and any(x in names for x in ("nodes", "expansions")):
                return True
    return False


def creation_increments(ctx: Ctx) -> dict[str, tuple[Optional[Lin], ast.AST, str]]:
    """form -> (increment applied to the depth for the children of that form, node, description)"""
    fn = ctx.fn(CREATE_NODE)
    chains = dispatch_chains(fn)
    if not chains:
        raise AnalysisError("create_node has no dispatch chain")
    var, br = max(chains, key=lambda x: len(x[1]))
    out: dict[str, tuple[Optional[Lin], ast.AST, str]] = {}

    def rec_calls(body: list[ast.stmt]) -> list[ast.Call]:
        return [c for s in body for c in ast.walk(s) if isinstance(c, ast.Call) and isinstance(c.func, ast.Name) and c.func.id == "create_node"]

    def handle(form: str, body: list[ast.stmt], node: ast.AST):
        calls = rec_calls(body)
        if not calls:
            return
        incs = []
        for c in calls:
            g = ctx.res.resolve(fn, c)
            params = g.targets[0].params if g.targets else fn.params
            cexpr = next((k.value for k in c.keywords if k.arg == "context"), None)
            if cexpr is None and "context" in params and len(c.args) > params.index("context"):
                cexpr = c.args[params.index("context")]
            incs.append(_ctx_depth_increment(ctx, fn, cexpr, ast.Module(body=body, type_ignores=[])) if cexpr is not None else None)
        inc = incs[0] if incs and all(i == incs[0] for i in incs) else None
        out[form] = (inc, calls[0], norm(calls[0])[:60])

    for b in br:
        if b.negated:
            continue
        if b.form in ("tuple", "list", "annotated", "union"):
            handle(b.form, b.body, b.test)
        elif b.form == "alternatives":
            handle("abstract", b.body, b.test)
        elif b.form == "else":
            inner = [st for st in b.body if isinstance(st, ast.If) and any(nb.form == "alternatives" for nb in chain(st))]
            if inner:
                for nb in chain(inner[0]):
                    if nb.form == "alternatives" and not nb.negated:
                        handle("abstract", nb.body, nb.test)
                    elif nb.form == "else":
                        handle("concrete", nb.body, inner[0])
            else:
                handle("concrete", b.body, b.body[0])
    return out


# ------------------------------------------------------------------------------------------- distance increments
def _dist_env() -> Env:
    env = Env(Facts())

    def hook(e_: Env, c: ast.Call):
        nm = call_name(c)
        if nm == "int" and c.args and isinstance(c.args[0], ast.Attribute) and c.args[0].attr == "expansion_depthing":
            return Lin.sym("e")
        if nm == "get_distance_to_terminal":
            return Lin.sym("R")
        if nm in ("max", "min") and len(c.args) == 1 and isinstance(c.args[0], (ast.GeneratorExp, ast.ListComp)):
            inner = evaluate(e_, c.args[0].elt)
            return inner if isinstance(inner, Lin) else Lin.sym("R")
        return None

    def sub(e_: Env, s: ast.Subscript):
        if isinstance(s.value, ast.Attribute) and s.value.attr == "distanceToTerminal":
            return Lin.sym("R")
        return None

    env.hooks.append(hook)
    env.sub_hooks.append(sub)
    return env


def distance_increments(ctx: Ctx) -> dict[str, tuple[Optional[Lin], ast.AST, str, Optional[str]]]:
    """form -> (increment of the distance over the inner type(s): a Lin in the symbol e, node, text, aggregator)"""
    out: dict[str, tuple[Optional[Lin], ast.AST, str, Optional[str]]] = {}
    g = ctx.fn(GDT)
    chains = dispatch_chains(g, min_forms=2)
    if not chains:
        raise AnalysisError("get_distance_to_terminal has no dispatch chain")
    var, br = max(chains, key=lambda x: len(x[1]))
    for b in br:
        rets = [r for s in b.body for r in ast.walk(s) if isinstance(r, ast.Return) and r.value is not None]
        if not rets or b.negated:
            continue
        v = evaluate(_dist_env(), rets[0].value)
        inc = (v - Lin.sym("R")) if isinstance(v, Lin) and "R" in v.coef else None
        agg = next((call_name(c) for c in ast.walk(rets[0].value) if isinstance(c, ast.Call) and call_name(c) in ("max", "min")), None)
        form = b.form
        if form == "generic":
            for f2 in ("union", "tuple"):
                out.setdefault(f2, (inc, rets[0], norm(rets[0].value)[:70], agg))
        elif form in ("annotated", "list", "union", "tuple"):
            out[form] = (inc, rets[0], norm(rets[0].value)[:70], agg)
    # preprocess: abstract / concrete equations
    p = ctx.fn(PREPROCESS)
    for n in walk_local(p.node):
        if isinstance(n, ast.If):
            f, v_, neg = classify(n.test)
            if f == "abstract" and not neg:
                mins = [c for s in n.body for c in ast.walk(s) if isinstance(c, ast.Call) and call_name(c) in ("min", "max") and len(c.args) == 2
                        and isinstance(c.func, ast.Name)]
                for c in mins:
                    v = evaluate(_dist_env(), c.args[1])
                    if isinstance(v, Lin) and "R" in v.coef:
                        out["abstract"] = (v - Lin.sym("R"), c, norm(c)[:70], call_name(c))
                for s in n.orelse:
                    for c in ast.walk(s):
                        if isinstance(c, ast.Call) and call_name(c) in ("max", "min") and len(c.args) == 1 and isinstance(c.args[0], (ast.GeneratorExp, ast.ListComp)):
                            v = evaluate(_dist_env(), c.args[0].elt)
                            if isinstance(v, Lin) and "R" in v.coef:
                                out["concrete"] = (v - Lin.sym("R"), c, norm(c)[:70], call_name(c))
    return out


def at_mode(l: Optional[Lin], e: int) -> Optional[int]:
    if l is None:
        return None
    v = l.const + l.coef.get("e", 0) * e
    if set(l.coef) - {"e"}:
        return None
    return int(v)


def table_rule(ctx: Ctx, rid: str, equality: bool) -> None:
    """R1 of C03 (inequalities) / C04 (equalities in default mode)."""
    ci, di = creation_increments(ctx), distance_increments(ctx)
    fn = ctx.fn(CREATE_NODE)
    n = 0
    for form in FORMS:
        c = ci.get(form)
        d = di.get(form)
        if c is None or d is None:
            ctx.ob(rid, fn, fn.node, f"depth bookkeeping for the {form} form", None,
                   f"could not extract {'creation' if c is None else 'distance'} increment for {form}")
            continue
        for e in ((0,) if equality else (0, 1)):
            n += 1
            dc, dd, dt = at_mode(c[0], e), at_mode(d[0], e), TRUE_DELTA[form]
            if dc is None or dd is None:
                definite = c[0] is None and _definitely_not_depth(ctx, c[1])
                ctx.ob(rid, fn, c[1], f"{form}: creation's child depth is context.depth + constant [expansion_depthing={bool(e)}]",
                       False if definite else None,
                       (f"the child context for {form} types ('{c[2]}') takes its depth from something other than context.depth: children "
                        f"are budgeted at an unrelated depth, so valid programs are pruned or the limit is exceeded") if definite else
                       (f"could not extract the child depth for {form} types from '{c[2]}'" if c[0] is None else
                        f"distance increment '{d[2]}' is not affine in the mode flag"))
                continue
            if equality:
                ok = dc == dd == dt
                why = "" if ok else (f"creation charges {dc} level(s) for a {form} but the distance table charges {dd} (true contribution {dt}): "
                                     + ("valid programs that fit the limit are pruned" if dc > dd or dc > dt else "programs deeper than the limit are admitted"))
            elif e == 0:
                ok = dt <= dc <= dd
                why = "" if ok else (f"creation charges {dc} level(s) for a {form} while the distance table promises {dd}: "
                                     + ("a node admitted by the depth filter leaves its children no admissible alternative, so creation fails midway "
                                        "(AssertionError from choice([])) at limits the grammar minimum says are feasible" if dc > dd else
                                        "children are created without charging the level they occupy: the depth limit can be exceeded"))
            else:
                ok = dc <= dd
                why = "" if ok else f"with expansion_depthing creation charges {dc} for a {form} but the table promises only {dd}: creation can fail midway"
            ctx.ob(rid, fn, c[1], f"{form}: creation increment vs distance increment [expansion_depthing={bool(e)}]", ok, why,
                   witness={"form": form, "creation": dc, "distance": dd, "true": dt, "mode": e})
    ctx.floor(rid, n, 6, "form x mode table entries")


# ------------------------------------------------------------------------------------------- chooser filters
def _cond_env() -> tuple[Env, Lin, Lin, Lin]:
    env = Env(Facts())
    d, M, c = Lin.sym("d"), Lin.sym("M"), Lin.sym("c")
    env.facts.ints |= {"d", "M", "c"}

    def hook(e_: Env, call: ast.Call):
        if call_name(call) == "get_distance_to_terminal":
            return d
        return None

    env.hooks.append(hook)
    env.vars["self.max_depth"] = M
    env.vars["ctx.depth"] = c
    return env, d, M, c


def _dnf(e: ast.AST) -> list[list[ast.AST]]:
    if isinstance(e, ast.BoolOp) and isinstance(e.op, ast.Or):
        out = []
        for v in e.values:
            out += _dnf(v)
        return out
    if isinstance(e, ast.BoolOp) and isinstance(e.op, ast.And):
        res = [[]]
        for v in e.values:
            res = [a + b for a in res for b in _dnf(v)]
        return res
    return [[e]]


def filter_rule(ctx: Ctx, rid: str, require_equivalence_everywhere: bool = False) -> None:
    prog = ctx.prog
    n = 0
    for f in prog.implementations(DECIDER, "choose_production_alternatives"):
        if not any(isinstance(x, ast.Attribute) and x.attr == "max_depth" for x in walk_local(f.node)):
            continue
        comps = [a for a in walk_local(f.node) if isinstance(a, ast.Assign) and isinstance(a.value, ast.ListComp)
                 and any(isinstance(c, ast.Call) and call_name(c) == "get_distance_to_terminal" for c in ast.walk(a.value))]
        # the list used by the final choice
        rets = [r for r in walk_local(f.node) if isinstance(r, ast.Return) and r.value is not None]
        final_names = set()
        for r in rets:
            for x in ast.walk(r.value):
                if isinstance(x, ast.Name):
                    final_names.add(x.id)
        for a in comps:
            nm = a.targets[0].id if isinstance(a.targets[0], ast.Name) else "?"
            cond = a.value.generators[0].ifs[0] if a.value.generators[0].ifs else None
            if cond is None:
                continue
            n += 1
            # is this list the fallback (assigned under 'if not <list>' or the only one)?
            is_fallback = any(isinstance(t, ast.UnaryOp) and isinstance(t.op, ast.Not) and pol for t, pol in guards(a, stop=f.node)) or len(comps) == 1 \
                or nm == "baseline"
            ok_impl, bad = True, None
            for conj in _dnf(cond):
                env, d, M, c = _cond_env()
                for atom in conj:
                    assume(env, atom, True)
                if not entails_ge0(env.facts, M - c - d):
                    ok_impl = False
                    bad = " and ".join(norm(x) for x in conj)
                    wit = find_model(env.facts, M - c - d)
            ctx.ob(rid, f, a, f"{f.cls.name}: every alternative kept in '{nm}' fits the remaining depth", ok_impl,
                   "" if ok_impl else f"the condition '{bad}' admits an alternative whose minimum depth exceeds max_depth - ctx.depth "
                                      f"(e.g. {wit}): the depth limit can be exceeded / creation fails deeper down",
                   witness=None if ok_impl else wit)
            if (is_fallback or require_equivalence_everywhere) and ok_impl and (nm in final_names or is_fallback):
                if is_fallback or f.cls.name == "MaxDepthDecider":
                    # equivalence: bound => condition
                    env, d, M, c = _cond_env()
                    env.facts.add_ge(M - c, d)
                    from ..absint import truth
                    numeric_only = all(isinstance(x, ast.Compare) for conj in _dnf(cond) for x in conj)
                    t = truth(env, cond)
                    okeq = t.v is True
                    wit = None
                    if not okeq and numeric_only and len(_dnf(cond)) == 1 and len(_dnf(cond)[0]) == 1:
                        at = _dnf(cond)[0][0]
                        a_, b_ = evaluate(env, at.left), evaluate(env, at.comparators[0])
                        vd = prove_cmp(env.facts, a_, at.ops[0], b_) if isinstance(a_, Lin) and isinstance(b_, Lin) else None
                        wit = vd.witness if vd is not None else None
                    n += 1
                    ctx.ob(rid, f, a, f"{f.cls.name}: the last-resort list '{nm}' keeps every alternative that still fits", okeq,
                           "" if okeq else f"'{norm(cond)}' is stricter than 'distance <= max_depth - ctx.depth' (e.g. {wit}): an alternative that "
                                           f"exactly fits the remaining depth is pruned, so limits equal to the grammar minimum fail and valid "
                                           f"programs become unreachable", witness=wit)
    ctx.floor(rid, n, 6, "depth-filter lists")


# ------------------------------------------------------------------------------------------- validate
def validate_rule(ctx: Ctx, rid: str) -> None:
    prog = ctx.prog
    n = 0
    for c in prog.subclasses(DECIDER):
        v = c.methods.get("validate")
        if v is None:
            continue
        init = prog.lookup_method(c, "__init__")
        n += 1
        calls = [x for x in walk_local(init.node) if isinstance(x, ast.Call) and call_name(x) == "validate" and is_self_attr(x.func)] if init else []
        ok = bool(calls) and all(not guards(x, stop=init.node) for x in calls)
        ctx.ob(rid, init or v, calls[0] if calls else (init.node if init else v.node), f"{c.name}.__init__ validates the limit on every path", ok,
               "" if ok else "the depth limit is not validated at construction: an infeasible limit fails midway through creation instead")
        # raise iff max_depth < min_tree_depth
        raises = [r for r in walk_local(v.node) if isinstance(r, ast.Raise)]
        outer = None
        for r in raises:
            gs = guards(r, stop=v.node)
            if gs:
                outer = gs[-1]
        if outer is None:
            ctx.ob(rid, v, v.node, f"{c.name}.validate rejects infeasible limits", False, "validate never raises")
            continue
        test, pol = outer
        env = Env(Facts())
        M, m = Lin.sym("M"), Lin.sym("m")
        env.facts.ints |= {"M", "m"}
        env.vars["self.max_depth"] = M
        env.hooks.append(lambda e_, cl: m if call_name(cl) == "get_min_tree_depth" else None)
        # (a) condition => M <= m - 1
        e1 = env.copy()
        assume(e1, test, pol)
        a_ok = entails_ge0(e1.facts, m - Lin.c(1) - M)
        wit_a = None if a_ok else find_model(e1.facts, m - Lin.c(1) - M)
        # (b) M <= m - 1 => condition
        e2 = env.copy()
        e2.facts.add_le(M, m - Lin.c(1))
        from ..absint import truth
        tv = truth(e2, test).v
        b_ok = (tv is True) if pol else (tv is False)
        n += 1
        ctx.ob(rid, v, test, f"{c.name}.validate raises only for infeasible limits (max_depth < grammar minimum)", a_ok,
               "" if a_ok else f"'{norm(test)}' also rejects a feasible limit (e.g. {wit_a}: max_depth equal to the grammar's minimum depth)",
               witness=wit_a)
        n += 1
        ctx.ob(rid, v, test, f"{c.name}.validate raises for every infeasible limit", b_ok,
               "" if b_ok else f"'{norm(test)}' lets some limit below the grammar minimum through: creation then fails midway")
        # the raised error is the library's
        for r in raises:
            d = dotted(r.exc.func if isinstance(r.exc, ast.Call) else r.exc) if r.exc is not None else None
            okk = d is not None and d.split(".")[-1] == "GeneticEngineError"
            ctx.ob(rid, v, r, f"{c.name}.validate raises the library error", okk, "" if okk else f"raises {d}")
    ctx.floor(rid, n, 4, "validate obligations")


# ------------------------------------------------------------------------------------------- AND / OR polarity
def polarity_rule(ctx: Ctx, rid: str, sides: tuple = ("and", "or")) -> None:
    """AND forms (tuple, concrete production: every part is built) must aggregate minimum depths with max; OR forms
    (union, abstract: one alternative is built) with min; updates only decrease a value (descent from INF)."""
    di = distance_increments(ctx)
    g = ctx.fn(GDT)
    p = ctx.fn(PREPROCESS)
    want = {"tuple": ("and", "max"), "concrete": ("and", "max"), "union": ("or", "min"), "abstract": ("or", "min")}
    n = 0
    for form, (side, agg) in want.items():
        if side not in sides:
            continue
        d = di.get(form)
        if d is None:
            ctx.ob(rid, g, g.node, f"aggregation for the {form} form", None, "not found")
            continue
        n += 1
        got = d[3]
        ok = got == agg
        owner = p if form in ("abstract", "concrete") else g
        if side == "and":
            why = (f"the minimum depth of a {form} is aggregated with {got}() over its parts, but every part is built: the distance is "
                   f"under-estimated, productions are admitted that cannot fit and programs exceed the limit / creation fails midway")
        else:
            why = (f"the minimum depth of a {form} is aggregated with {got}() over its alternatives, but only one alternative is built: "
                   f"the reported minimum depth is too large (U(u: Union[Mid, int]) is reported at 3 although U(u=0) has depth 1) and feasible "
                   f"limits are rejected")
        ctx.ob(rid, owner, d[1], f"{form} ({side.upper()} form) aggregates with {agg}", ok, "" if ok else why,
               witness={"form": form, "aggregator": got, "expected": agg})
    if "or" in sides:
        # monotone descent: the stored value only decreases
        upd = [a for a in walk_local(p.node) if isinstance(a, ast.Assign) and isinstance(a.targets[0], ast.Subscript)
               and isinstance(a.targets[0].value, ast.Attribute) and a.targets[0].value.attr == "distanceToTerminal"
               and any(isinstance(x, ast.While) for x in ancestors(a))]
        for a in upd:
            n += 1
            gs = guards(a, stop=p.node)
            ok = any(isinstance(t, ast.Compare) and isinstance(t.ops[0], (ast.Lt, ast.Gt)) and pol for t, pol in gs)
            ctx.ob(rid, p, a, "fixpoint update applied only when the value decreases", ok,
                   "" if ok else "the distance table is overwritten without the 'new < old' test: the iteration is not a monotone descent")
    ctx.floor(rid, n, 2 if sides == ("and",) else 4, "aggregation sites")
