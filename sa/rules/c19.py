"""C19 - production weights are normalised per non-terminal, stable and respected (structural clauses)."""
from __future__ import annotations

import ast

from ..astutil import call_name, guards, is_self_attr
from ..frontend import AnalysisError, FunctionInfo, norm, parent, walk_local
from ..report import Ctx
from .common import DECIDER, RANDOM_SOURCE

LEVEL_TEXT = (
    "Static rules: (R1) def-use of Grammar.update_weights: for every rule the accumulator is reset, sums exactly the "
    "(updated) weights of that rule's productions, and each of those weights is divided by that accumulator and "
    "written back to its class once; get_weights gives unweighted productions exactly the default 1.0 (a declared 0 "
    "stays 0); idempotence follows for disjoint rules; (R2) production weights are written only by the weight "
    "decorator and update_weights, and extract_grammar normalises exactly when some class is weighted; (R3) a "
    "zero-weight option is unreachable in the weighted choice (the draw stays strictly below the total and is compared "
    "strictly - the C18.R3 obligations for choice_weighted) and every weight-aware chooser passes weights aligned with "
    "the alternatives it passes. Numerical preservation of ratios in floating point and proportional selection are not "
    "decided."
)
UPDATE = "geneticengine.grammar.grammar:Grammar.update_weights"
GETW = "geneticengine.grammar.grammar:Grammar.get_weights"
EXTRACT = "geneticengine.grammar.grammar:extract_grammar"


def rule_r1(ctx: Ctx) -> None:
    uw = ctx.fn(UPDATE)
    outer = [l for l in uw.node.body if isinstance(l, ast.For) and isinstance(l.iter, ast.Attribute) and l.iter.attr == "alternatives"]
    norm_loops = [l for l in outer if any(isinstance(a, ast.AugAssign) for b_ in l.body for a in ast.walk(b_))]
    if len(norm_loops) != 1:
        ctx.ob("C19.R1", uw, uw.node, "per-rule normalisation loop", None, f"{len(norm_loops)} candidate loops over self.alternatives")
        return
    L = norm_loops[0]
    rule_var = L.target.id if isinstance(L.target, ast.Name) else None
    inner = [l for l in L.body if isinstance(l, ast.For)]
    accs = [a for a in L.body if isinstance(a, ast.Assign) and isinstance(a.targets[0], ast.Name) and isinstance(a.value, ast.Constant) and a.value.value == 0]
    ok_reset = len(accs) == 1
    ctx.ob("C19.R1", uw, accs[0] if accs else L, "the per-rule total is reset to 0 for every rule", ok_reset,
           "" if ok_reset else "the accumulator is not initialised inside the per-rule loop: totals of earlier rules leak into later ones and "
                               "the weights of a rule no longer sum to one")
    if not ok_reset or len(inner) != 2:
        if len(inner) != 2:
            ctx.ob("C19.R1", uw, L, "accumulate loop followed by divide loop", None, f"{len(inner)} inner loops")
        return
    acc = accs[0].targets[0].id
    l1, l2 = inner
    same_iter = norm(l1.iter) == norm(l2.iter)
    prods_src = l1.iter
    if isinstance(prods_src, ast.Name):
        d = [a for a in L.body if isinstance(a, ast.Assign) and isinstance(a.targets[0], ast.Name) and a.targets[0].id == prods_src.id]
        prods_src = d[0].value if d else prods_src
    from_rule = isinstance(prods_src, ast.Subscript) and isinstance(prods_src.value, ast.Attribute) and prods_src.value.attr == "alternatives" \
        and isinstance(prods_src.slice, ast.Name) and prods_src.slice.id == rule_var
    ctx.ob("C19.R1", uw, l1, "both inner loops run over this rule's productions", same_iter and from_rule,
           "" if same_iter and from_rule else "the sum and the division run over different collections (or not over alternatives[rule])")
    v1 = l1.target.id if isinstance(l1.target, ast.Name) else None
    v2 = l2.target.id if isinstance(l2.target, ast.Name) else None
    # accumulate: acc += weights[prod] after the additive update
    adds = [a for a in l1.body if isinstance(a, ast.AugAssign) and isinstance(a.target, ast.Name) and a.target.id == acc and isinstance(a.op, ast.Add)]
    upd = [a for a in l1.body if isinstance(a, ast.AugAssign) and isinstance(a.target, ast.Subscript)]
    ok_acc = len(adds) == 1 and isinstance(adds[0].value, ast.Subscript) and isinstance(adds[0].value.slice, ast.Name) and adds[0].value.slice.id == v1
    order_ok = not upd or (adds and l1.body.index(upd[0]) < l1.body.index(adds[0]))
    ctx.ob("C19.R1", uw, adds[0] if adds else l1, "the total sums the updated weight of each production of the rule, once", ok_acc and order_ok,
           "" if ok_acc and order_ok else "the accumulator does not add weights[prod] exactly once per production after the update")
    wname = adds[0].value.value.id if ok_acc and isinstance(adds[0].value.value, ast.Name) else None
    divs = [a for a in l2.body if isinstance(a, (ast.Assign, ast.AugAssign))]
    ok_div = False
    why = "no division of weights[prod] by the rule's total"
    if len(divs) == 1:
        a = divs[0]
        tgt = a.targets[0] if isinstance(a, ast.Assign) else a.target
        val = a.value
        if isinstance(a, ast.Assign) and isinstance(val, ast.BinOp) and isinstance(val.op, ast.Div):
            num, den = val.left, val.right
            ok_div = isinstance(tgt, ast.Subscript) and isinstance(tgt.slice, ast.Name) and tgt.slice.id == v2 and norm(num) == norm(tgt) \
                and isinstance(den, ast.Name) and den.id == acc and (wname is None or (isinstance(tgt.value, ast.Name) and tgt.value.id == wname))
            if not ok_div:
                why = f"'{norm(a)}' does not divide the production's own weight by the rule's total '{acc}'"
        elif isinstance(a, ast.AugAssign) and isinstance(a.op, ast.Div):
            ok_div = isinstance(a.value, ast.Name) and a.value.id == acc and isinstance(tgt, ast.Subscript) and isinstance(tgt.slice, ast.Name) and tgt.slice.id == v2
    ctx.ob("C19.R1", uw, divs[0] if divs else l2, "each weight of the rule is divided by the rule's total", ok_div, "" if ok_div else why)
    # write-back to the classes
    wb = [a for a in walk_local(uw.node) if isinstance(a, ast.Assign) and isinstance(a.targets[0], ast.Subscript)
          and isinstance(a.targets[0].slice, ast.Constant) and a.targets[0].slice.value == "weight"]
    ok_wb = bool(wb) and all(isinstance(a.value, ast.Subscript) and isinstance(a.value.value, ast.Name) and (wname is None or a.value.value.id == wname) for a in wb)
    ctx.ob("C19.R1", uw, wb[0] if wb else uw.node, "normalised weights are written back to the classes", ok_wb,
           "" if ok_wb else "the normalised weights are not stored on the classes: a second extraction starts from the old values")

    # every production that was normalised is written back: a write-back loop over the rules' productions (or over
    # all weights), not only over the user-listed subtypes
    covers = False
    for a in wb:
        loops = [l for l in _anc(a) if isinstance(l, ast.For)]
        for l in loops:
            it = l.iter
            if isinstance(it, ast.Name):
                d = [x for x in walk_local(uw.node) if isinstance(x, ast.Assign) and isinstance(x.targets[0], ast.Name) and x.targets[0].id == it.id]
                it = d[-1].value if d else it
            txt = norm(it)
            if "alternatives" in txt or (wname and txt in (wname, f"{wname}.keys()", f"{wname}.items()")) or txt.endswith("all_nodes"):
                covers = True
    ctx.ob("C19.R1", uw, wb[0] if wb else uw.node, "the write-back covers every production whose weight was normalised", covers,
           "" if covers else "only the classes listed in considered_subtypes (and the start symbol) are written back: a production reached "
                             "through its parents keeps its raw weight, the rule's weights no longer sum to one and repeated extraction drifts "
                             "(0.75 -> 0.43 -> 0.30 for a sibling weighted 3)")

    # get_weights default
    gw = ctx.fn(GETW)
    gets = [c for c in walk_local(gw.node) if isinstance(c, ast.Call) and call_name(c) == "get" and c.args and isinstance(c.args[0], ast.Constant)
            and c.args[0].value == "weight"]
    ok = False
    why = "get_weights does not read the 'weight' entry with a default"
    if len(gets) == 1:
        g = gets[0]
        dflt = g.args[1] if len(g.args) > 1 else None
        wrapped = isinstance(parent(g), ast.BoolOp)
        ok = dflt is not None and isinstance(dflt, ast.Constant) and dflt.value == 1 and not wrapped
        if wrapped:
            why = f"'{norm(parent(g))}' replaces every falsy weight by the default: a declared weight of 0 silently becomes 1.0, so a zero-weight production gets a positive share"
        elif dflt is None:
            why = "no default: unweighted productions get None"
        elif not ok:
            why = f"the default weight is {norm(dflt)}, not 1"
    ctx.ob("C19.R1", gw, gets[0] if gets else gw.node, "unweighted productions count as exactly 1.0; declared weights are kept (0 stays 0)", ok, "" if ok else why)


def _anc(n):
    from ..frontend import ancestors
    return ancestors(n)


def rule_r2(ctx: Ctx) -> None:
    prog, res = ctx.prog, ctx.res
    n = 0
    for f in prog.functions.values():
        for nd in walk_local(f.node):
            if isinstance(nd, (ast.Assign, ast.AugAssign)):
                tg = nd.targets if isinstance(nd, ast.Assign) else [nd.target]
                for t in tg:
                    if isinstance(t, ast.Subscript) and isinstance(t.slice, ast.Constant) and t.slice.value == "weight":
                        n += 1
                        ok = f.fullname == UPDATE or f.fullname.startswith("geneticengine.grammar.decorators:weight")
                        ctx.ob("C19.R2", f, nd, "store to a production weight", ok,
                               "" if ok else "production weights are rewritten outside the weight decorator / update_weights")
    ex = ctx.fn(EXTRACT)
    calls = [c for c in walk_local(ex.node) if isinstance(c, ast.Call) and call_name(c) == "update_weights"]
    okx = False
    if len(calls) == 1:
        c = calls[0]
        gs = guards(c, stop=ex.node)
        cond_ok = len(gs) == 1 and gs[0][1] and any(isinstance(x, ast.Constant) and x.value == "weight" for x in ast.walk(gs[0][0]))
        args_ok = len(c.args) == 2 and isinstance(c.args[1], ast.Call) and call_name(c.args[1]) == "get_weights"
        okx = cond_ok and args_ok
    n += 1
    ctx.ob("C19.R2", ex, calls[0] if calls else ex.node, "extract_grammar normalises (update_weights(lr, current weights)) when some class is weighted", okx,
           "" if okx else "extract_grammar does not normalise the declared weights exactly when a weight is declared")
    ctx.floor("C19.R2", n, 4, "weight stores / normalisation call")


def rule_r3(ctx: Ctx) -> None:
    prog, res = ctx.prog, ctx.res
    from .c18 import check_choice_weighted
    before = len(ctx.obligations)
    for f in prog.implementations(RANDOM_SOURCE, "choice_weighted", include_base=True):
        check_choice_weighted(ctx, f)
    for o in ctx.obligations[before:]:
        o.rule = "C19.R3"
    # weight-aware call sites: weights aligned with the alternatives
    n = 0
    for f in prog.functions.values():
        for c in walk_local(f.node, include_nested=False):
            if isinstance(c, ast.Call) and call_name(c) == "choice_weighted" and len(c.args) == 2 and isinstance(c.func, ast.Attribute):
                n += 1
                ch, w = c.args
                def base(e):
                    while isinstance(e, ast.Call) and call_name(e) in ("list", "tuple", "sorted") and e.args:
                        e = e.args[0]
                    return e
                chb = base(ch)
                wsrc = w
                if isinstance(w, ast.Name):
                    d = [a for a in walk_local(f.node) if isinstance(a, ast.Assign) and isinstance(a.targets[0], ast.Name) and a.targets[0].id == w.id]
                    wsrc = d[-1].value if d else w
                ok = False
                why = f"weights '{norm(wsrc)[:50]}' are not computed element by element from the choices '{norm(ch)[:40]}'"
                if isinstance(wsrc, ast.ListComp) and len(wsrc.generators) == 1 and not wsrc.generators[0].ifs:
                    it = base(wsrc.generators[0].iter)
                    ok = norm(it) == norm(chb)
                    if ok and isinstance(wsrc.generators[0].target, ast.Name):
                        v = wsrc.generators[0].target.id
                        ok = v in {x.id for x in ast.walk(wsrc.elt) if isinstance(x, ast.Name)}
                        if not ok:
                            why = "the weight expression does not depend on the element it is paired with"
                elif isinstance(wsrc, (ast.Name, ast.Attribute)):
                    ok = True  # caller-provided parallel list (metahandler matrix row): alignment is the caller's contract
                    ctx.accept("C19.R3", f.loc(c), "weights are a caller-supplied parallel sequence (probability-matrix row for an alphabet)")
                ctx.ob("C19.R3", f, c, f"weights passed to choice_weighted are aligned with {norm(ch)[:40]}", ok, "" if ok else why)
    ctx.floor("C19.R3", n, 3, "weighted-choice call sites")


def run(ctx: Ctx) -> None:
    ctx.rule("C19.R1", "update_weights: per-rule reset / sum / divide / write-back; unweighted default exactly 1.0")
    ctx.rule("C19.R2", "weights written only by the decorator and update_weights; extract_grammar normalises when weighted")
    ctx.rule("C19.R3", "zero-weight option unreachable in choice_weighted; weights aligned with alternatives at every call site")
    rule_r1(ctx)
    rule_r2(ctx)
    rule_r3(ctx)
    ctx.assumptions += ["each production class has one grammar parent (mro()[1]), so rules are disjoint and normalisation is idempotent",
                        "weights are non-negative (user contract); floating-point rounding is not modelled"]
