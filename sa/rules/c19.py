"""C19 - production weights are normalised per non-terminal, stable and respected (structural clauses)."""
from __future__ import annotations

import ast

from ..astutil import call_name, guards, is_self_attr
from ..frontend import AnalysisError, FunctionInfo, norm, parent, walk_local
from ..report import Ctx
from .common import DECIDER, RANDOM_SOURCE

LEVEL_TEXT = (
    "(R1) Grammar.update_weights is interpreted (finite model, exact rational arithmetic, helpers and "
    "staticmethods inlined) on two rules (R1 -> p1 | p2, R2 -> p3 | p4 | p5) with raw weights, a learning rate "
    "and extra weights: (and on the extraction call for a grammar one of whose rules declares no weight at all): "
    "afterwards every production carries (raw + rate * extra) / (sum of that over its own rule), the weights of "
    "each rule sum to exactly one, and the value is written back to every production, not only to the listed "
    "subtypes (a failed assertion or division by zero in the model is a violation); get_weights is interpreted on"
    " a declaration table: an unweighted production counts exactly 1.0 and a declared 0 stays 0; (R2) production "
    "weights are stored only by the weight decorator and update_weights, and extract_grammar, interpreted on four"
    " declaration tables, normalises (update_weights(1, <current weights>)) exactly when some class declares a "
    "weight - a declared weight of 0 counts; (R3) the stack mapper, interpreted with a grammar-weight table over "
    "an abstract symbol, its productions and a base type, hands every candidate type to choice_weighted with the "
    "grammar's weight of that very candidate; choice_weighted never returns a zero-weight option (C18.R3 model on"
    " eight weight vectors plus the affine 'draw < total' proof) and the weights are aligned with the "
    "alternatives at every call site (the same filtered / sorted sequence feeds both lists, also when they are "
    "built by one loop appending to both); (R5) every chooser that reaches choice_weighted is interpreted on "
    "three alternatives for declared weights with zeros in every position x minimum-depth tables x recursive sets"
    " x context depths x heuristic targets: the effective weights keep declared zeros at zero and are never all "
    "zero while a positive-weight alternative is offered (choice_weighted would fall through to the first "
    "alternative whatever its weight); every definition of the weight list that reaches the call is aligned - "
    "decided by the spelling where it is the plain element-wise comprehension, and otherwise by the model: the "
    "chooser interpreted on permuted offers must leave every alternative with the effective weight it had; (R6) "
    "rules are disjoint - on a model grammar with a production that has two abstract bases the interpreted "
    "registration lists it under exactly one rule, so per-rule normalisation is well defined; (R4) the class "
    "decorators that write grammar metadata (weight, abstract) are interpreted in both orders on a model class: "
    "both entries are present afterwards. Floating-point rounding of the ratios is not decided."
)
UPDATE = "geneticengine.grammar.grammar:Grammar.update_weights"
GETW = "geneticengine.grammar.grammar:Grammar.get_weights"
EXTRACT = "geneticengine.grammar.grammar:extract_grammar"


def rule_r1(ctx: Ctx) -> None:
    """update_weights is interpreted (sa/modelinterp, exact rational arithmetic) on a grammar model with two rules
    (R1 -> p1 | p2, R2 -> p3 | p4 | p5), raw weights, a learning rate and extra weights: afterwards every production carries
    (raw + rate * extra) / (sum of that over its own rule) - the weights of each rule sum to exactly one - and that value is
    written back to every production (not only to the user-listed subtypes)."""
    from fractions import Fraction as F
    from ..modelinterp import Budget, Effect, Interp, Sym, UNKNOWN, _NONE
    uw = ctx.fn(UPDATE)
    rules = {"R1": ["p1", "p2"], "R2": ["p3", "p4", "p5"]}
    scenarios = [
        ({"p1": F(1), "p2": F(3), "p3": F(2), "p4": F(2), "p5": F(1)}, F(1, 2), {"p1": F(2), "p2": F(0), "p3": F(4), "p4": F(0), "p5": F(2)}),
        ({"p1": F(1), "p2": F(1), "p3": F(0), "p4": F(5), "p5": F(5)}, F(1), {"p1": F(0), "p2": F(0), "p3": F(0), "p4": F(1), "p5": F(3)}),
        # the extraction call (rate 1, extra = current weights) on a grammar whose second rule declares no weight at all: its productions count 1.0 each
        ({"p1": F(1), "p2": F(3), "p3": F(1), "p4": F(1), "p5": F(1)}, F(1), {"p1": F(1), "p2": F(3), "p3": F(1), "p4": F(1), "p5": F(1)}, {"p3", "p4", "p5"}),
    ]
    bad = und = None
    n = 0
    for raw, rate, extra, *rest in scenarios:
        stored: dict[str, dict] = {}
        undeclared = rest[0] if rest else set()

        def call_model(it, call, env, args, kwargs, raw=raw, stored=stored, undeclared=undeclared):
            nm = call_name(call)
            if nm == "get_weights":
                return {k: v for k, v in raw.items()} | {"START": F(1), "sub1": F(1)}
            if nm == "get_gengy" and len(args) == 1 and isinstance(args[0], Sym):
                return stored.setdefault(args[0].tag, {} if args[0].tag in undeclared else {"weight": raw.get(args[0].tag)})
            if nm in ("__init__", "register_type", "preprocess", "validate"):
                return _NONE
            return None

        it = Interp(ctx.prog, uw.cls, lambda *_: None, call_model, max_depth=4, max_traces=8)
        it.on_start = stored.clear
        prm = [p_ for p_ in uw.params if p_ != "self"]
        env = {"self": Sym("self"), prm[0]: rate, prm[1]: {k: v for k, v in extra.items()} | {"START": F(0), "sub1": F(0)},
               "self.alternatives": {r: [Sym(p_) for p_ in ps] for r, ps in rules.items()}, "self.starting_symbol": Sym("START"),
               "self.considered_subtypes": [Sym("sub1")], "self.all_nodes": [Sym(p_) for ps in rules.values() for p_ in ps]}
        try:
            runs = it.run(uw, env)
        except Budget:
            und = "too many interpretations"
            continue
        for trace, rv, notes in runs:
            if any(e.kind == "raise" for e in trace):
                nm_ = [e.name for e in trace if e.kind == "raise"][0]
                n += 1
                if nm_.startswith(("AssertionError", "ZeroDivisionError")):
                    bad = bad or (f"update_weights fails ({nm_}) on raw weights {dict((k, str(v)) for k, v in raw.items())}, rate {rate}: the weights it "
                                  f"computes are not normalised per rule", {"raw": {k: str(v) for k, v in raw.items()}})
                else:
                    und = und or f"a path raises ({nm_})"
                continue
            n += 1
            scen = {"raw": {k: str(v) for k, v in raw.items()}, "learning_rate": str(rate), "extra": {k: str(v) for k, v in extra.items()},
                    "productions_without_declared_weight": sorted(undeclared)}
            for r, ps in rules.items():
                tot = sum(raw[p_] + rate * extra[p_] for p_ in ps)
                got_sum = F(0)
                for p_ in ps:
                    want = (raw[p_] + rate * extra[p_]) / tot
                    got = stored.get(p_, {}).get("weight", raw[p_])
                    if not isinstance(got, (int, F)) and got is not UNKNOWN and not isinstance(got, float):
                        und = und or f"weight of {p_} not followed ({got!r})"
                        continue
                    if got is UNKNOWN:
                        und = und or f"weight of {p_} not followed"
                        continue
                    got_sum += F(got)
                    if F(got) != want and bad is None:
                        wb = p_ in stored and "weight" in stored[p_] and stored[p_]["weight"] != raw[p_]
                        bad = (f"after update_weights production {p_} of rule {r} carries weight {got} instead of {want} "
                               f"(raw {raw[p_]}, rate {rate}, extra {extra[p_]}, rule total {tot})"
                               + ("" if wb else ": the normalised weight is not written back to the class, a second extraction starts from the old value"), scen)
                if bad is None and got_sum != 1 and und is None:
                    bad = (f"the weights of rule {r} sum to {got_sum} after update_weights, not to 1", scen)
    ctx.ob("C19.R1", uw, uw.node, "after update_weights every production carries (raw + rate*extra) / (its rule's total): each rule sums to 1, written back to every production",
           False if bad else (None if und else True), bad[0] if bad else (und or ""), witness=bad[1] if bad else {"scenarios": n})
    ctx.floor("C19.R1", n, 2, "interpreted update_weights scenarios")

    # get_weights: interpreted on three productions - one without a declared weight, one declared 0, one declared 2.5
    gw = ctx.fn(GETW)
    meta = {"P1": {}, "P2": {"weight": 0}, "P3": {"weight": 2.5}}

    def call_model_gw(it, call, env, args, kwargs):
        if call_name(call) == "get_gengy" and len(args) == 1 and isinstance(args[0], Sym):
            return dict(meta.get(args[0].tag, {}))
        return None

    itg = Interp(ctx.prog, gw.cls, lambda *_: None, call_model_gw, max_depth=5, max_traces=8)
    ok: Optional[bool] = None
    why = "get_weights is not followed"
    try:
        runs = itg.run(gw, {"self": Sym("self"), "self.all_nodes": [Sym("P1"), Sym("P2"), Sym("P3")]})
        vals = [rv for tr, rv, nts in runs if not any(e.kind == "raise" for e in tr)]
        if len(vals) == 1 and isinstance(vals[0], dict) and set(vals[0]) >= {"P1", "P2", "P3"} and all(isinstance(vals[0][k], (int, float)) for k in ("P1", "P2", "P3")):
            got = {k: vals[0][k] for k in ("P1", "P2", "P3")}
            ok = got == {"P1": 1.0, "P2": 0, "P3": 2.5}
            why = "" if ok else (f"for productions declared (none, 0, 2.5) get_weights reports {got}: "
                                 + ("a declared weight of 0 silently becomes the default, so a zero-weight production gets a positive share" if got["P2"] != 0
                                    else "an unweighted production does not count as exactly 1.0" if got["P1"] != 1.0 else "a declared weight is not kept"))
    except Budget:
        pass
    ctx.ob("C19.R1", gw, gw.node, "unweighted productions count as exactly 1.0; declared weights are kept (0 stays 0)", ok, "" if ok else why)


def _anc(n):
    from ..frontend import ancestors
    return ancestors(n)


def rule_r2(ctx: Ctx) -> None:
    prog, res = ctx.prog, ctx.res
    n = 0
    from .common import weight_store_sites, weight_writers
    for f in prog.functions.values():
        for nd in weight_store_sites(f):
            n += 1
            ok = f.fullname in weight_writers(prog)
            ctx.ob("C19.R2", f, nd, "store to a production weight", ok,
                   "" if ok else f"'{norm(nd)[:60]}' writes a production weight outside the weight decorator / update_weights: a grammar without declared "
                                 f"weights becomes a weighted one, and extracting it again renormalises (1.0 each becomes 1/n)")
    # extract_grammar normalises exactly when a weight is declared (a declared weight of 0 is a declared weight): interpreted
    # on three declaration tables, the grammar object symbolic, its analysis passes stubbed
    from ..modelinterp import Budget, Effect, Interp, Sym, UNKNOWN, _NONE
    ex = ctx.fn(EXTRACT)
    P1, P2, P3 = Sym("P1"), Sym("P2"), Sym("P3")
    for label, table, want in (("no weight declared", {}, False), ("one production declares weight 2", {"P2": {"weight": 2.0}}, True),
                               ("the only declared weight is 0 (a production switched off)", {"P1": {"weight": 0}}, True),
                               ("every production declares a weight", {"P1": {"weight": 1}, "P2": {"weight": 3}, "P3": {"weight": 0.5}}, True)):
        def call_model(it, call, env, args, kwargs, table=table):
            nm = call_name(call)
            recv = it.ev(call.func.value, env, 9) if isinstance(call.func, ast.Attribute) else None
            if nm == "Grammar" and isinstance(call.func, ast.Name):
                it.heap[("g", "all_nodes")] = [P1, P2, P3]
                it.heap[("g", "considered_subtypes")] = [P1, P2, P3]
                return Sym("g")
            if isinstance(recv, Sym) and recv.tag == "g":
                if nm in ("register_type", "preprocess"):
                    return _NONE
                if nm == "get_weights":
                    return Sym("current-weights")
                if nm == "update_weights":
                    it.trace.append(Effect("call", "update_weights", tuple(args), dict(kwargs), node=call))
                    return recv
                gm_ = prog.lookup_method(prog.get_class("geneticengine.grammar.grammar.Grammar"), nm)
                if gm_ is not None:
                    rets_ = [r_ for r_ in walk_local(gm_.node) if isinstance(r_, ast.Return)]
                    if rets_ and all(isinstance(r_.value, ast.Name) and r_.value.id == "self" for r_ in rets_):
                        return recv          # a fluent analysis pass (return self): the grammar object stays the same
                    if not rets_ or all(r_.value is None for r_ in rets_):
                        return _NONE
            if nm == "get_gengy" and len(args) == 1 and isinstance(args[0], Sym):
                return dict(table.get(args[0].tag, {}))
            return None

        it = Interp(prog, None, lambda *_: None, call_model, max_depth=4, max_traces=8)
        ps = ex.params
        env = {ps[0]: [P1, P2, P3], ps[1]: Sym("START")}
        for p_ in ps[2:]:
            env[p_] = False
        n += 1
        construct = f"extract_grammar normalises the weights iff a weight is declared: {label}"
        try:
            runs = it.run(ex, env)
        except Budget:
            ctx.ob("C19.R2", ex, ex.node, construct, None, "too many interpretations")
            continue
        verdict, why = True, ""
        for trace, rv, notes in runs:
            if notes or any(e.kind == "raise" for e in trace):
                verdict, why = None, (notes[0] if notes else "a path raises")
                break
            ups = [e for e in trace if e.kind == "call" and e.name == "update_weights"]
            if want and not ups:
                verdict, why = False, (f"with '{label}' the weights are not normalised: the rule's weights do not sum to one "
                                       f"(unweighted siblings keep 1.0 next to the declared weight)")
                break
            if not want and ups:
                verdict, why = False, "weights are rewritten although no class declares one"
                break
            if ups and not (len(ups) == 1 and len(ups[0].args) == 2 and ups[0].args[0] == 1 and isinstance(ups[0].args[1], Sym)
                            and ups[0].args[1].tag == "current-weights"):
                verdict, why = False, f"normalisation is called as update_weights{ups[0].args!r}, not as update_weights(1, <the grammar's current weights>)"
                break
        ctx.ob("C19.R2", ex, ex.node, construct, verdict, why)
    ctx.floor("C19.R2", n, 4, "weight stores / normalisation call")


def rule_r4(ctx: Ctx) -> None:
    """The class decorators that write grammar metadata (weight, abstract) share one per-class dict: applied in either order to
    a model class, both entries are there afterwards - a decorator that replaces the dict drops what the other one declared."""
    from ..modelinterp import Budget, Interp, LocalFn, Obj, Sym, UNKNOWN, _NONE
    prog = ctx.prog
    wf = prog.functions.get("geneticengine.grammar.decorators:weight")
    af = prog.functions.get("geneticengine.grammar.decorators:abstract")
    if wf is None or af is None:
        raise AnalysisError("anchor function missing: geneticengine.grammar.decorators weight / abstract")

    def atom(it, e, env):
        if isinstance(e, ast.Attribute) and e.attr == "__dict__":
            b = it.ev(e.value, env, 9)
            if isinstance(b, Obj):
                return b.fields          # the live namespace of the model class
        return None

    def call_model(it, call, env, args, kwargs):
        nm = call_name(call)
        if nm == "setattr" and len(args) == 3 and isinstance(args[0], Obj) and isinstance(args[1], str):
            args[0].fields[args[1]] = args[2]
            return _NONE
        if nm == "getattr" and len(args) >= 2 and isinstance(args[0], Obj) and isinstance(args[1], str):
            return args[0].fields.get(args[1], args[2] if len(args) > 2 else UNKNOWN)
        if nm == "hasattr" and len(args) == 2 and isinstance(args[0], Obj):
            return args[1] in args[0].fields
        if nm == "is_builtin":
            return False
        return None

    def apply_weight(K):
        it = Interp(prog, None, atom, call_model, max_depth=14, max_traces=4)
        runs = it.run(wf, {wf.params[0]: 2.5})
        rv = runs[0][1] if len(runs) == 1 else None
        if not isinstance(rv, LocalFn):
            return None
        it.fn_stack = [wf]
        it.call_local(rv, [K], {}, 1, None)
        return K

    def apply_abstract(K):
        it = Interp(prog, None, atom, call_model, max_depth=14, max_traces=4)
        runs = it.run(af, {af.params[0]: K})
        if len(runs) != 1 or runs[0][2]:
            return None
        return it.envs[0].get(af.params[0])

    for label, order in (("@abstract above @weight", (apply_weight, apply_abstract)), ("@weight above @abstract", (apply_abstract, apply_weight))):
        K = Obj("type:K", {})
        try:
            for step in order:
                K = step(K) if K is not None else None
        except Budget:
            K = None
        construct = f"class decorators, {label}: the declared weight and the abstract flag are both in the class's metadata"
        if K is None:
            ctx.ob("C19.R4", wf, wf.node, construct, None, "the decorators are not followed in the model")
            continue
        meta = K.fields.get("__gengy__")
        ok = isinstance(meta, dict) and meta.get("weight") == 2.5 and meta.get("abstract") is True
        ctx.ob("C19.R4", af if "weight" not in (meta or {}) else wf, None, construct, ok if isinstance(meta, dict) else None,
               "" if ok else (f"after both decorators the metadata is {meta!r}: "
                              + ("the declared weight is gone (the later decorator replaced the dict), so the class counts as weight one and the declared ratios are lost"
                                 if isinstance(meta, dict) and "weight" not in meta else "an entry is missing")))


def rule_r3(ctx: Ctx) -> None:
    prog, res = ctx.prog, ctx.res
    from .c18 import check_choice_weighted
    before = len(ctx.obligations)
    for f in prog.implementations(RANDOM_SOURCE, "choice_weighted", include_base=True):
        check_choice_weighted(ctx, f)
    for o in ctx.obligations[before:]:
        o.rule = "C19.R3"
    # weight-aware call sites: weights aligned with the alternatives
    n = 0
    for f in prog.functions.values():
        for c in walk_local(f.node, include_nested=False):
            if isinstance(c, ast.Call) and call_name(c) == "choice_weighted" and len(c.args) == 2 and isinstance(c.func, ast.Attribute):
                n += 1
                ch, w = c.args
                def base(e):
                    while isinstance(e, ast.Call) and call_name(e) in ("list", "tuple", "sorted") and e.args:
                        e = e.args[0]
                    return e
                chb = base(ch)
                srcs = [w]
                if isinstance(w, ast.Name):
                    d = [a for a in walk_local(f.node) if isinstance(a, ast.Assign) and isinstance(a.targets[0], ast.Name) and a.targets[0].id == w.id]
                    srcs = [a.value for a in d] or [w]

                def aligned(wsrc):
                    ok = False
                    why = f"weights '{norm(wsrc)[:50]}' are not computed element by element from the choices '{norm(ch)[:40]}'"
                    if isinstance(wsrc, ast.ListComp) and len(wsrc.generators) == 1 and not wsrc.generators[0].ifs:
                        it = base(wsrc.generators[0].iter)
                        ok = norm(it) == norm(chb)
                        if ok and isinstance(wsrc.generators[0].target, ast.Name):
                            v = wsrc.generators[0].target.id
                            ok = v in {x.id for x in ast.walk(wsrc.elt) if isinstance(x, ast.Name)}
                            if not ok:
                                why = "the weight expression does not depend on the element it is paired with"
                    elif isinstance(wsrc, ast.List) and not wsrc.elts and isinstance(w, ast.Name):
                        # weights = []; for alt in <choices>: weights.append(<expr of alt>)   - one append per element, unconditionally
                        loops = [l for l in walk_local(f.node) if isinstance(l, ast.For) and norm(base(l.iter)) == norm(chb) and isinstance(l.target, ast.Name)]
                        apps = [(l, x) for l in loops for x in ast.walk(l) if isinstance(x, ast.Call) and call_name(x) == "append"
                                and isinstance(x.func, ast.Attribute) and isinstance(x.func.value, ast.Name) and x.func.value.id == w.id]
                        other = [x for x in walk_local(f.node) if isinstance(x, ast.Call) and call_name(x) in ("append", "extend", "insert")
                                 and isinstance(x.func, ast.Attribute) and isinstance(x.func.value, ast.Name) and x.func.value.id == w.id
                                 and not any(x is a_[1] for a_ in apps)]
                        if len(apps) == 1 and not other and isinstance(parent(parent(apps[0][1])), ast.For) \
                                and apps[0][0].target.id in {x.id for x in ast.walk(apps[0][1]) if isinstance(x, ast.Name)}:
                            ok = True
                        else:
                            ok = None
                            why = f"how '{w.id}' is filled is not followed"
                    elif isinstance(wsrc, (ast.Name, ast.Attribute)):
                        ok = True  # caller-provided parallel list (metahandler matrix row): alignment is the caller's contract
                        ctx.accept("C19.R3", f.loc(c), "weights are a caller-supplied parallel sequence (probability-matrix row for an alphabet)")
                    return ok, why
                # every definition of the weight list that can reach the call must be aligned (a fall-back list as much as the first one)
                verdicts = [aligned(x) for x in srcs]
                ok = False if any(v is False for v, _ in verdicts) else (None if any(v is None for v, _ in verdicts) else True)
                why = next((y for v, y in verdicts if v is False), next((y for v, y in verdicts if v is None), ""))
                if ok is not True and f.cls is not None:
                    # the spelling is not one the syntactic rule knows: decide by the model (a chooser of a decider, interpreted on permuted offers)
                    choosers = [g for g in prog.implementations(DECIDER, "choose_production_alternatives") if g.cls is not None and (g is f or (
                        prog.is_subclass(g.cls, f.cls.fullname) and any(isinstance(x, ast.Call) and call_name(x) == f.name for x in ast.walk(g.node))))]
                    for g in choosers[:1]:
                        mok, mwhy = chooser_alignment(ctx, g)
                        ok, why = mok, (mwhy if mok is not None else f"alignment decided neither by the spelling ({why}) nor by the model ({mwhy})")
                ctx.ob("C19.R3", f, c, f"weights passed to choice_weighted are aligned with {norm(ch)[:40]}", ok, "" if ok else why)
    ctx.floor("C19.R3", n, 3, "weighted-choice call sites")
    # the stack mapper weighs the *types it targets*: interpreted (sa/rules/stackmodel.py) with a grammar-weight table over an abstract symbol, its two
    # productions and a base type, every candidate handed to choice_weighted must carry the grammar's weight of that very candidate (1 when it has none)
    from ..modelinterp import TypeV as _T, BUILTIN_TYPES as _BT
    from .stackmodel import run_stack
    A_, P_, Q_ = _T("class", "A"), _T("class", "P"), _T("class", "Q")
    table = {A_: 0.25, P_: 0.0, Q_: 0.75, _BT["int"]: 0.5}
    cap: list = []
    sm = prog.functions.get("geneticengine.representations.stackgggp:create_tree_using_stacks")
    try:
        run_stack(ctx, A_, [Q_, A_], {P_: [("v", _BT["int"])], Q_: []}, {A_: [P_, Q_]}, [A_, P_, Q_, _BT["int"], _BT["float"]], weights=table, capture=cap)
    except Exception as ex_:          # the model is auxiliary here: what it cannot follow is reported as undecided below
        cap = []
    verdict_, why_ = None, "the stack mapper's weighted choice is not reached in the model"
    for opts_, ws_ in cap[:1]:
        if ws_ is None or len(opts_) != len(ws_) or not all(isinstance(w_, (int, float)) and not isinstance(w_, bool) for w_ in ws_):
            verdict_, why_ = None, "the weights handed to choice_weighted are not followed"
            break
        wrong_ = [(o_, w_) for o_, w_ in zip(opts_, ws_) if w_ != table.get(o_, 1)]
        verdict_ = not wrong_
        why_ = "" if not wrong_ else (f"the candidate {getattr(wrong_[0][0], 'name', wrong_[0][0])} is handed to choice_weighted with weight {wrong_[0][1]}, the grammar's weight "
                                      f"for it is {table.get(wrong_[0][0], 1)}: the stack mapper does not choose in proportion to the production weights "
                                      f"(a symbol of weight 0 can be targeted)")
    ctx.ob("C19.R3", sm, sm.node if sm else None, "stack mapper: every candidate type carries the grammar's weight of that very candidate", verdict_, why_)


def _weighted_chooser_call(ctx: Ctx, f: FunctionInfo, order: tuple, declared: dict, dist: dict, rec: tuple, depth: int, deepest: int, state: Optional[dict] = None,
                           keep: Optional[dict] = None):
    """interpret the weight-aware chooser f on the alternatives x<i> in the given order; returns (options, effective weights) as handed to
    choice_weighted, ("raise",) when the chooser rejects the offer, or a string saying why it was not followed"""
    from ..modelinterp import Budget, Interp, Obj, Sym, UNKNOWN
    prog = ctx.prog
    alts = [Sym(t) for t in order]
    ps = [p_ for p_ in f.params if p_ != "self"]
    alts_p = "alternatives" if "alternatives" in ps else (ps[-2] if len(ps) >= 2 else ps[0])
    ctx_p = "ctx" if "ctx" in ps else ps[-1]
    captured: list = []

    def call_model(it, call, env, args, kwargs):
        nm = call_name(call)
        if nm == "get_distance_to_terminal" and len(args) == 1 and isinstance(args[0], Sym):
            return dist.get(args[0].tag, UNKNOWN)
        if nm == "choice_weighted" and len(args) == 2 and isinstance(call.func, ast.Attribute):
            captured.append((list(args[0]) if isinstance(args[0], list) else None, list(args[1]) if isinstance(args[1], list) else None))
            return args[0][0] if isinstance(args[0], list) and args[0] else UNKNOWN
        if nm == "choice" and args and isinstance(args[0], list) and args[0]:
            return args[0][0]
        if nm == "get_weights":
            return dict(declared)                      # the interpreter keys symbolic objects by their tag
        if nm == "get_max_node_depth":
            return deepest
        if nm == "get_min_tree_depth":
            return min(dist.values())
        return None

    it = Interp(prog, f.cls, lambda *_: None, call_model, max_depth=6, max_traces=4)
    it.heap[("grammar", "recursive_prods")] = [Sym(t) for t in rec]
    it.heap[("grammar", "alternatives")] = {p_: [Sym(t) for t in sorted(order)] for p_ in ps if p_ not in (alts_p, ctx_p)}     # the grammar's own list, in registration order
    it.heap[("grammar", "all_nodes")] = [Sym(t) for t in sorted(order)]
    env = {"self": Sym("self"), "self.max_depth": 4, "self.grammar": Sym("grammar"), "self.random": Sym("random"), alts_p: list(alts),
           ctx_p: Obj("LocalSynthesisContext", {"depth": depth, "nodes": 1, "expansions": 0, "dependent_values": {}})}
    for p_ in ps:
        env.setdefault(p_, Sym(p_))
    # the decider's own state: what its constructor creates (tables, caches), or what an earlier call on the same object left behind
    from .choosermodel import _ctor_fields
    for k_, v_ in (state if state is not None else {"self." + a_: b_ for a_, b_ in _ctor_fields(prog, f.cls, call_model).items()}).items():
        env.setdefault(k_, v_)
    try:
        runs = it.run(f, env)
    except Budget:
        return "too many interpretations"
    if keep is not None and len(runs) == 1:
        keep.clear()
        keep.update({k_: v_ for k_, v_ in it.envs[0].items() if k_.startswith("self.") and k_ not in ("self.grammar", "self.random", "self.max_depth")})
    if len(runs) != 1 or runs[0][2]:
        return runs[0][2][0] if runs and runs[0][2] else f"{len(runs)} interpretations (open condition at {it.fork_sites[:1]})"
    if any(e.kind == "raise" for e in runs[0][0]) or not captured:
        return ("raise",)
    opts, eff = captured[-1]
    if opts is None or eff is None or len(opts) != len(eff) or not all(isinstance(x, (int, float)) and not isinstance(x, bool) for x in eff) \
            or not all(isinstance(o, Sym) and o.tag in declared for o in opts):
        return f"the weights handed to choice_weighted are not numbers in the model ({eff!r}, {opts!r})"
    return [o.tag for o in opts], list(eff)


def chooser_alignment(ctx: Ctx, f: FunctionInfo):
    """alignment decided by the model instead of by the spelling: offering the same three alternatives in another order must leave every
    alternative with the effective weight it had (weights computed from a differently ordered list pair the wrong weight with an option)"""
    declared = {"x1": 0.2, "x2": 0.3, "x3": 0.5}
    und = None
    for dist, rec, depth, deepest in (({"x1": 1, "x2": 2, "x3": 3}, ("x2",), 0, 5), ({"x1": 3, "x2": 1, "x3": 2}, (), 1, 4), ({"x1": 2, "x2": 2, "x3": 1}, ("x1", "x3"), 2, 7)):
        ref = _weighted_chooser_call(ctx, f, ("x1", "x2", "x3"), declared, dist, rec, depth, deepest)
        if isinstance(ref, str):
            und = und or ref
            continue
        if ref == ("raise",):
            continue
        base = dict(zip(*ref))
        for order in (("x3", "x1", "x2"), ("x2", "x3", "x1"), ("x3", "x2", "x1")):
            got = _weighted_chooser_call(ctx, f, order, declared, dist, rec, depth, deepest)
            if isinstance(got, str):
                und = und or got
                continue
            if got == ("raise",):
                continue
            if list(got[0]) != list(order):
                return False, f"offered {list(order)}, the options handed to choice_weighted are {got[0]}"
            now = dict(zip(*got))
            if now != base:
                k = next(t for t in base if base[t] != now.get(t))
                return False, (f"offered in the order {list(order)} the alternative {k} gets the effective weight {now.get(k)}, offered as ['x1', 'x2', 'x3'] it got "
                               f"{base[k]}: the weights are not paired with the alternatives they belong to")
    # ... and a second offer to the same decider object, shorter than the first (the retry after a production failed to synthesise): whatever the
    # decider remembered from the first call must not be paired with the new offer
    for dist, rec, depth, deepest in (({"x1": 1, "x2": 2, "x3": 3}, ("x2",), 0, 5),):
        kept: dict = {}
        first = _weighted_chooser_call(ctx, f, ("x1", "x2", "x3"), declared, dist, rec, depth, deepest, keep=kept)
        if isinstance(first, str) or first == ("raise",):
            continue
        base = dict(zip(*first))
        second = _weighted_chooser_call(ctx, f, ("x2", "x3"), declared, dist, rec, depth, deepest, state=dict(kept))
        if isinstance(second, str):
            und = und or second
            continue
        if second == ("raise",):
            continue
        now = dict(zip(*second))
        if len(second[0]) != len(second[1]) or any(now[t] != base[t] for t in now):
            k = next((t for t in now if now[t] != base.get(t)), second[0][0])
            return False, (f"offered ['x2', 'x3'] after ['x1', 'x2', 'x3'] on the same decider, the alternative {k} gets the effective weight {now.get(k)} (it had {base.get(k)}): "
                           f"what the decider remembered from the first offer is paired with the second one")
    return (None, und) if und else (True, "")


def rule_r5(ctx: Ctx) -> None:
    """Every chooser that weighs its alternatives (a choose_production_alternatives that reaches choice_weighted) is interpreted on
    three alternatives for declared weights with zeros in every position x minimum-depth tables x recursive sets x context depths
    x heuristic targets.  choice_weighted returns an option of positive effective weight when there is one and otherwise falls
    through to the first option (C18.R3), so the effective weights handed to it must satisfy: an alternative of declared weight 0
    has effective weight 0, and when some offered alternative has a positive declared weight the effective weights are not all 0."""
    from ..modelinterp import Budget, Interp, Obj, Sym, UNKNOWN
    from .choosermodel import DIST_TABLES, REC_TABLES
    prog = ctx.prog
    n = 0
    from .depthrules import chooser_instances
    for f in chooser_instances(prog):
        reach = [f] + [g for g in (prog.lookup_method(f.cls, call_name(c)) for c in ast.walk(f.node)
                                   if isinstance(c, ast.Call) and isinstance(c.func, ast.Attribute) and isinstance(c.func.value, ast.Name) and c.func.value.id == "self")
                       if g is not None]
        if not any(isinstance(c, ast.Call) and call_name(c) == "choice_weighted" for g in reach for c in ast.walk(g.node)):
            continue
        n += 1
        alts = [Sym("x1"), Sym("x2"), Sym("x3")]
        ps = [p_ for p_ in f.params if p_ != "self"]
        alts_p = "alternatives" if "alternatives" in ps else (ps[-2] if len(ps) >= 2 else ps[0])
        ctx_p = "ctx" if "ctx" in ps else ps[-1]
        bad = und = None
        runs_n = 0
        for declared in ((0.0, 1.0, 1.0), (1.0, 0.0, 1.0), (0.0, 0.0, 1.0), (1.0, 1.0, 0.0), (0.0, 0.5, 0.5), (0.25, 0.25, 0.5)):
            for dists in DIST_TABLES:
                for rec in REC_TABLES:
                    for depth in (0, 1, 5):
                        for deepest in (max(dists), max(dists) + 2):
                            if bad:
                                break
                            dist = {a.tag: d_ for a, d_ in zip(alts, dists)}
                            wts = {a: w_ for a, w_ in zip(alts, declared)}
                            captured: list = []

                            def call_model(it, call, env, args, kwargs, dist=dist, wts=wts, captured=captured, deepest=deepest):
                                nm = call_name(call)
                                if nm == "get_distance_to_terminal" and len(args) == 1 and isinstance(args[0], Sym):
                                    return dist.get(args[0].tag, UNKNOWN)
                                if nm == "choice_weighted" and len(args) == 2 and isinstance(call.func, ast.Attribute):
                                    captured.append((list(args[0]) if isinstance(args[0], list) else None, list(args[1]) if isinstance(args[1], list) else None))
                                    return args[0][0] if isinstance(args[0], list) and args[0] else UNKNOWN
                                if nm == "choice" and args and isinstance(args[0], list) and args[0]:
                                    return args[0][0]
                                if nm == "get_weights":
                                    return {a_.tag: w_ for a_, w_ in wts.items()}      # the interpreter keys symbolic objects by their tag
                                if nm == "get_max_node_depth":
                                    return deepest
                                if nm == "get_min_tree_depth":
                                    return min(dist.values())
                                return None

                            it = Interp(prog, f.cls, lambda *_: None, call_model, max_depth=6, max_traces=4)
                            it.heap[("grammar", "recursive_prods")] = [alts[i] for i in rec]
                            env = {"self": Sym("self"), "self.max_depth": 4, "self.grammar": Sym("grammar"), "self.random": Sym("random"), alts_p: list(alts),
                                   ctx_p: Obj("LocalSynthesisContext", {"depth": depth, "nodes": 1, "expansions": 0, "dependent_values": {}})}
                            for p_ in ps:
                                env.setdefault(p_, Sym(p_))
                            try:
                                runs = it.run(f, env)
                            except Budget:
                                und = und or "too many interpretations"
                                continue
                            if len(runs) != 1 or runs[0][2]:
                                und = und or (runs[0][2][0] if runs and runs[0][2] else f"{len(runs)} interpretations")
                                continue
                            if any(e.kind == "raise" for e in runs[0][0]) or not captured:
                                continue          # an assertion about the offer, or a path without a weighted choice
                            opts, eff = captured[-1]
                            if opts is None or eff is None or len(opts) != len(eff) or not all(isinstance(x, (int, float)) and not isinstance(x, bool) for x in eff) \
                                    or not all(o in wts for o in opts):
                                und = und or f"the weights handed to choice_weighted are not numbers in the model ({eff!r}, {opts!r})"
                                continue
                            runs_n += 1
                            scen = (f"declared weights {dict((a.tag, w_) for a, w_ in wts.items())}, minimum depths {dist}, recursive {[alts[i].tag for i in rec]}, "
                                    f"context depth {depth}, deepest symbol of the grammar {deepest}")
                            wrong = [o for o, e_ in zip(opts, eff) if wts[o] == 0 and e_ > 0]
                            if wrong:
                                bad = f"with {scen} the alternative {wrong[0].tag} of declared weight 0 gets the effective weight {eff[opts.index(wrong[0])]}"
                            elif any(wts[o] > 0 for o in opts) and not any(e_ > 0 for e_ in eff):
                                first = opts[0]
                                bad = (f"with {scen} every effective weight handed to choice_weighted is 0 ({eff}) although "
                                       f"{[o.tag for o in opts if wts[o] > 0]} have a positive declared weight: the weighted choice falls through to the first "
                                       f"alternative, {first.tag}" + (" - a production of declared weight 0" if wts[first] == 0 else ""))
        ctx.ob("C19.R5", f, f.node, f"{f.cls.name if f.cls else f.qualname}: effective weights keep zeros at zero and never vanish while a positive-weight alternative is offered",
               False if bad else (None if und else True), bad or und or "", witness={"scenarios": runs_n})
    ctx.floor("C19.R5", n, 1, "weight-aware choosers")


def rule_r6(ctx: Ctx) -> None:
    """update_weights normalises rule by rule, which is only well defined when no production belongs to two rules.  The grammar
    analysis is interpreted end to end (sa/rules/grammodel.py) on a model grammar with a production that has two abstract bases
    (class Tagged(Shape, Named)): afterwards the production is listed under exactly one rule."""
    from .grammodel import C, INT, ModelGrammar, interpret
    g = ModelGrammar("a production with two abstract bases", "Top", {
        "Top": ("concrete", None, [("s", C("Shape")), ("n", C("Named"))]),
        "Shape": ("abstract", None, []), "Named": ("abstract", None, []),
        "Circle": ("concrete", "Shape", [("r", INT)]), "Tagged": ("concrete", "Shape", [("t", INT)]), "Label": ("concrete", "Named", []),
    }, ["Circle", "Tagged", "Label"], more_bases={"Tagged": ["Named"]})
    gcls = ctx.prog.classes.get("geneticengine.grammar.grammar.Grammar")
    reg = gcls.methods.get("register_type") if gcls else None
    st, why = interpret(ctx, g, 0)
    construct = "a production with two abstract bases (class Tagged(Shape, Named)) is listed under exactly one rule"
    if st is None:
        ctx.ob("C19.R6", reg, reg.node if reg else None, construct, None, f"grammar analysis not followed: {why}")
        return
    alts = st.get("self.alternatives")
    if not isinstance(alts, dict):
        ctx.ob("C19.R6", reg, reg.node if reg else None, construct, None, "the production table is not a dict in the model")
        return
    owners = sorted(str(getattr(k, "name", k)) for k, v in alts.items() if isinstance(v, list) and any(getattr(x, "name", None) == "Tagged" for x in v))
    ok = len(owners) == 1
    ctx.ob("C19.R6", reg, reg.node if reg else None, construct, ok,
           "" if ok else (f"Tagged is listed under {owners}: update_weights divides its weight once per rule with different totals, so the rule normalised first "
                          f"no longer sums to one, the declared ratios are lost and every further extraction changes the weights again" if owners else
                          "Tagged is listed under no rule"))


def run(ctx: Ctx) -> None:
    ctx.rule("C19.R6", "rules are disjoint: a production with several abstract bases is registered under one rule only (per-rule normalisation is well defined)")
    rule_r6(ctx)
    ctx.rule("C19.R5", "weight-aware choosers never hand choice_weighted an all-zero vector while a positive-weight production is offered, and keep declared zeros at zero")
    rule_r5(ctx)
    ctx.rule("C19.R1", "update_weights: per-rule reset / sum / divide / write-back; unweighted default exactly 1.0")
    ctx.rule("C19.R4", "the metadata decorators (weight, abstract) compose in either order: a declared weight survives")
    rule_r4(ctx)
    ctx.rule("C19.R2", "weights written only by the decorator and update_weights; extract_grammar normalises when weighted")
    ctx.rule("C19.R3", "zero-weight option unreachable in choice_weighted; weights aligned with alternatives at every call site")
    rule_r1(ctx)
    rule_r2(ctx)
    rule_r3(ctx)
    ctx.assumptions += [
                        "weights are non-negative (user contract); floating-point rounding is not modelled"]
