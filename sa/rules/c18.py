"""C18 - random primitives honour their contracts for every random source (structural clauses)."""
from __future__ import annotations

import ast
from fractions import Fraction
from typing import Any, Optional

from ..absint import (B3, FAILS, HOLDS, UNDECIDED, UNPROVEN, Env, Facts, Lin, Member, Opaque, Outcome, Tup, assume,
                      attr_path, entails_ge0, evaluate, find_model, interp, prove_cmp)
from ..astutil import call_name, is_self_attr
from ..frontend import AnalysisError, FunctionInfo, norm, parent, walk_local
from ..report import Ctx
from .common import DECIDER, RANDOM_SOURCE

LEVEL_TEXT = (
    "Abstract interpretation (affine relational domain with Fourier-Motzkin entailment and integer tightening; each "
    "random draw is a fresh exact symbol constrained to its range, gene values are arbitrary integers) of every "
    "implementation, found through the RandomSource / SynthesisDecider hierarchy: (R1) randint and the deciders' "
    "random_int return a value within [min, max] for all min <= max, with every modulus provably positive; (R2) "
    "random_float stays within [min, max]; (R3) choice indexes within range and returns an element of its argument, "
    "shuffle only swaps in-range positions and returns its list, pop_random removes exactly the element it returns, "
    "choice_weighted draws strictly below the total weight so that the zero-weight fall-through is unreachable and "
    "compares strictly against the accumulated weights of the aligned options; (R4) NativeRandomSource draws only from "
    "a private random.Random(seed). A containment that fails is reported only with an attainable witness (exact "
    "values) or when it fails on every model; 'in proportion to the weights' (a distribution) is not decided."
)

MAXSIZE = "sys.maxsize"


class Model:
    """Call / subscript models shared by the C18 (and C02) interpretations; collects side obligations."""

    def __init__(self, seqs: dict[str, Lin] | None = None):
        self.pre: list[tuple[ast.AST, str, Any]] = []      # (node, description, Verdict)
        self.index: list[tuple[ast.AST, str, Any, Any]] = []  # (node, seq, lower verdict, upper verdict)
        self.seqs = dict(seqs or {})                         # sequence path -> length symbol name

    def call(self, env: Env, c: ast.Call) -> Any:
        f = env.facts
        name = call_name(c)
        args = c.args
        if name == "randint" and len(args) >= 2:
            a, b = evaluate(env, args[0]), evaluate(env, args[1])
            if isinstance(a, Lin) and isinstance(b, Lin):
                self.pre.append((c, f"randint precondition {a!r} <= {b!r}", prove_cmp(f, a, ast.LtE(), b)))
                d = f.fresh("draw", exact=True, integer=True)
                f.add_ge(d, a)
                f.add_le(d, b)
                return d
            return f.fresh("draw", exact=False, integer=True)
        if name == "random" and not args:
            u = f.fresh("u", exact=True, integer=False)
            f.add_ge(u, Lin.c(0))
            f.add_le(u, Lin.c(1))
            return u
        if name == "random_float" and len(args) >= 2:
            a, b = evaluate(env, args[0]), evaluate(env, args[1])
            x = f.fresh("fdraw", exact=True, integer=False)
            if isinstance(a, Lin) and isinstance(b, Lin):
                self.pre.append((c, f"random_float precondition {a!r} <= {b!r}", prove_cmp(f, a, ast.LtE(), b)))
                f.add_ge(x, a)
                f.add_le(x, b)
            return x
        if name == "random_bool":
            return B3(None)
        if name == "read":
            return f.fresh("gene", exact=True, integer=True)
        if name == "get" and len(args) == 2 and isinstance(c.func, ast.Attribute) and attr_path(c.func.value) in ("self.genotype",):
            return f.fresh("gene", exact=True, integer=True)
        if name == "pow" and len(args) == 2:
            b_, e_ = evaluate(env, args[0]), evaluate(env, args[1])
            p = f.fresh("pow", exact=False, integer=True)
            if isinstance(b_, Lin) and isinstance(e_, Lin) and entails_ge0(f, b_ - Lin.c(1)) and entails_ge0(f, e_):
                f.add_ge(p, Lin.c(1))
            return p
        if name in ("round", "log10", "sqrt", "log", "cos", "normalvariate", "abs", "int") and name != "int":
            r = f.fresh(name, exact=False, integer=(name == "round"))
            if name in ("abs", "sqrt"):
                f.add_ge(r, Lin.c(0))
            return r
        if name == "pop" and isinstance(c.func, ast.Attribute):
            p = attr_path(c.func.value)
            if p in self.seqs:
                L = env.vars.get(f"len({p})", Lin.sym(self.seqs[p]))
                f.add_ge(L, Lin.c(1))  # a successful pop: the list was not empty
                env.vars[f"len({p})"] = L - Lin.c(1)
                return Member(p)
        if name == "choice" and len(args) == 1:
            p = attr_path(args[0])
            return Member(p or norm(args[0]))
        return None

    def sub(self, env: Env, e: ast.Subscript) -> Any:
        f = env.facts
        p = attr_path(e.value)
        if p in self.seqs and not isinstance(e.slice, ast.Slice):
            idx = evaluate(env, e.slice)
            L = env.vars.get(f"len({p})", Lin.sym(self.seqs[p]))
            if isinstance(idx, Lin):
                lo = prove_cmp(f, idx, ast.GtE(), Lin.c(0))
                hi = prove_cmp(f, idx, ast.LtE(), L - Lin.c(1))
                self.index.append((e, p, lo, hi))
            return Member(p)
        if p is not None and p.endswith(".dna") or (isinstance(e.value, ast.Subscript) and (attr_path(e.value.value) or "").endswith(".dna")):
            if isinstance(e.slice, ast.Slice):
                return None
            return f.fresh("gene", exact=True, integer=True)
        return None


def base_env(integer: bool = True) -> tuple[Env, Lin, Lin]:
    f = Facts()
    env = Env(f)
    f.ints.add(MAXSIZE)
    f.add_ge(Lin.sym(MAXSIZE), Lin.c(2**31 - 1))
    lo, hi = Lin.sym("min"), Lin.sym("max")
    if integer:
        f.ints |= {"min", "max"}
    f.add_le(lo, hi)
    return env, lo, hi


def verdict_ob(ctx: Ctx, rule: str, fn: FunctionInfo, node: ast.AST, construct: str, v, accepted: dict[str, str] | None = None):
    if v.status == HOLDS:
        ctx.ob(rule, fn, node, construct, True, "")
    elif v.status == FAILS:
        ctx.ob(rule, fn, node, construct, False, v.detail, witness=v.witness)
    else:
        key = f"{fn.fullname}|{construct}"
        if accepted and key in accepted:
            ctx.accept(rule, fn.loc(node), accepted[key])
            ctx.ob(rule, fn, node, construct, True, f"accepted: {accepted[key]}")
        else:
            ctx.ob(rule, fn, node, construct, None, v.detail or v.status)


def check_bounded(ctx: Ctx, rule: str, fn: FunctionInfo, integer: bool) -> None:
    """result of fn(min, max) lies in [min, max] for all min <= max."""
    params = [p for p in fn.params if p != "self"]
    if len(params) < 2:
        ctx.ob(rule, fn, fn.node, "bounded draw signature", None, "fewer than two bound parameters")
        return
    env, lo, hi = base_env(integer)
    env.vars[params[0]], env.vars[params[1]] = lo, hi
    model = Model()
    env.hooks.append(model.call)
    env.sub_hooks.append(model.sub)
    outs = interp(fn.node.body, env)
    if not outs:
        ctx.ob(rule, fn, fn.node, "bounded draw", None, "no path")
    for o in outs:
        cond = "; ".join(o.conds) or "all inputs"
        if o.kind == "raise":
            continue
        if o.kind != "return" or o.value is None:
            ctx.ob(rule, fn, o.node or fn.node, f"result within [min, max] on path [{cond}]", None,
                   f"path ends with {o.kind}: {norm(o.node)[:60] if o.node is not None else ''}")
            continue
        v = o.value
        if isinstance(v, Opaque):
            bad = [n for n in o.env.facts.notes if isinstance(n, tuple) and n[0] in ("bad-modulus", "bad-divisor")]
            if bad and bad[0][2] is not None:
                what = "modulus" if bad[0][0] == "bad-modulus" else "divisor"
                ctx.ob(rule, fn, o.node, f"every {what} is non-zero/positive on path [{cond}]", False,
                       f"{what} {bad[0][1]} is not positive at {bad[0][2]} (ZeroDivisionError / out-of-range result)",
                       witness=bad[0][2])
            else:
                ctx.ob(rule, fn, o.node, f"result within [min, max] on path [{cond}]", None, f"opaque result: {v.why}")
            continue
        if not isinstance(v, Lin):
            ctx.ob(rule, fn, o.node, f"result within [min, max] on path [{cond}]", None, f"non-numeric result {v!r}")
            continue
        f = o.env.facts
        verdict_ob(ctx, rule, fn, o.node, f"result >= min on path [{cond}]", prove_cmp(f, v, ast.GtE(), lo))
        verdict_ob(ctx, rule, fn, o.node, f"result <= max on path [{cond}]", prove_cmp(f, v, ast.LtE(), hi))
    for node, desc, vd in model.pre:
        # inner draws: preconditions that cannot be established are listed (not violations: they concern
        # opaque quantities such as round(log10(width)))
        if vd.status == FAILS:
            ctx.ob(rule, fn, node, f"inner {desc}", False, vd.detail, witness=vd.witness)
        elif vd.status == HOLDS:
            ctx.ob(rule, fn, node, f"inner {desc}", True, "")
        else:
            ctx.notes.append(f"{fn.fullname}: {desc} not established (inexact operand); assumed")


def rule_r1_r2(ctx: Ctx) -> None:
    prog = ctx.prog
    ri = prog.implementations(RANDOM_SOURCE, "randint")
    ctx.floor("C18.R1", len(ri), 4, "randint implementations")
    for f in ri:
        check_bounded(ctx, "C18.R1", f, integer=True)
    di = prog.implementations(DECIDER, "random_int")
    ctx.floor("C18.R1", len(di), 2, "decider random_int implementations")
    for f in di:
        check_bounded(ctx, "C18.R1", f, integer=True)
    rf = prog.implementations(RANDOM_SOURCE, "random_float")
    ctx.floor("C18.R2", len(rf), 4, "random_float implementations")
    for f in rf:
        check_bounded(ctx, "C18.R2", f, integer=False)


def rule_r3(ctx: Ctx) -> None:
    prog = ctx.prog
    rs = prog.get_class(RANDOM_SOURCE)
    # any override of the derived primitives in subclasses is checked the same way
    def impls(name: str) -> list[FunctionInfo]:
        return prog.implementations(RANDOM_SOURCE, name, include_base=True)

    # ---- choice
    for f in impls("choice"):
        seq = f.params[1]
        env = Env(Facts())
        L = env.symbol(f"len({seq})")
        env.facts.add_ge(L, Lin.c(0))
        for a in f.node.body:
            if isinstance(a, ast.Assert) and isinstance(a.test, ast.Name) and a.test.id == seq:
                env.facts.add_ge(L, Lin.c(1))
        model = Model({seq: f"len({seq})"})
        env.hooks.append(model.call)
        env.sub_hooks.append(model.sub)
        outs = interp(f.node.body, env)
        for o in outs:
            if o.kind != "return":
                if o.kind != "raise":
                    ctx.ob("C18.R3", f, o.node or f.node, "choice returns an element", None, f"path ends with {o.kind}")
                continue
            ok = isinstance(o.value, Member) and o.value.of == seq
            ctx.ob("C18.R3", f, o.node, "choice returns an element of its argument", ok,
                   "" if ok else f"choice returns {o.value!r}, not an element of '{seq}'")
        for node, p, lo, hi in model.index:
            verdict_ob(ctx, "C18.R3", f, node, f"choice index >= 0", lo)
            verdict_ob(ctx, "C18.R3", f, node, f"choice index <= len-1", hi)
        for node, desc, vd in model.pre:
            verdict_ob(ctx, "C18.R3", f, node, f"choice: {desc.split(' ')[0]} bounds ordered (non-empty argument)", vd)

    # ---- shuffle
    for f in impls("shuffle"):
        lst = f.params[1]
        loops = [l for l in walk_local(f.node) if isinstance(l, ast.For)]
        rets = [r for r in walk_local(f.node) if isinstance(r, ast.Return)]
        ok_ret = len(rets) == 1 and isinstance(rets[0].value, ast.Name) and rets[0].value.id == lst
        ctx.ob("C18.R3", f, rets[0] if rets else f.node, "shuffle returns the list it permuted", ok_ret,
               "" if ok_ret else "shuffle does not return its argument list")
        stores = [n for n in walk_local(f.node) if isinstance(n, (ast.Assign, ast.AugAssign, ast.Delete))
                  and any(isinstance(t, ast.Subscript) and attr_path(t.value) == lst for t in ast.walk(n) if isinstance(getattr(t, 'ctx', None), (ast.Store, ast.Del)))]
        muts = [c for c in walk_local(f.node) if isinstance(c, ast.Call) and isinstance(c.func, ast.Attribute)
                and attr_path(c.func.value) == lst and c.func.attr in ("append", "pop", "remove", "insert", "extend", "clear", "sort", "reverse")]
        ctx.ob("C18.R3", f, muts[0] if muts else f.node, "shuffle changes the list only by swaps", not muts,
               "" if not muts else f"shuffle calls {lst}.{muts[0].func.attr}(): the result need not be a permutation")
        for s_ in stores:
            ok = _is_swap(s_, lst)
            ctx.ob("C18.R3", f, s_, "store into the list is a swap of two positions", ok,
                   "" if ok else f"'{norm(s_)[:70]}' is not a swap: elements can be duplicated or lost")
        if len(loops) == 1 and isinstance(loops[0].target, ast.Name):
            l = loops[0]
            rng = l.iter
            if isinstance(rng, ast.Call) and call_name(rng) == "reversed" and rng.args:
                rng = rng.args[0]
            env = Env(Facts())
            L = env.symbol(f"len({lst})")
            env.facts.add_ge(L, Lin.c(0))
            i = env.symbol(l.target.id)
            decided = False
            if isinstance(rng, ast.Call) and call_name(rng) == "range" and 1 <= len(rng.args) <= 2:
                a = evaluate(env, rng.args[0]) if len(rng.args) == 2 else Lin.c(0)
                b = evaluate(env, rng.args[-1])
                if isinstance(a, Lin) and isinstance(b, Lin):
                    env.facts.add_ge(i, a)
                    env.facts.add_le(i, b - Lin.c(1))
                    env.vars[l.target.id] = i
                    decided = True
            if not decided:
                ctx.ob("C18.R3", f, l, "shuffle loop range", None, f"unrecognised loop iterable {norm(l.iter)}")
            else:
                model = Model({lst: f"len({lst})"})
                env.hooks.append(model.call)
                env.sub_hooks.append(model.sub)
                # evaluate loads and stores of the body for index obligations
                outs = interp(l.body, env)
                for s_ in stores:
                    for t in ast.walk(s_):
                        if isinstance(t, ast.Subscript) and isinstance(t.ctx, ast.Store) and attr_path(t.value) == lst and outs:
                            model.sub(outs[0].env, t)
                seen = set()
                for node, p, lo, hi in model.index:
                    k = norm(node)
                    if k in seen:
                        continue
                    seen.add(k)
                    verdict_ob(ctx, "C18.R3", f, node, f"shuffle index {k} >= 0", lo)
                    verdict_ob(ctx, "C18.R3", f, node, f"shuffle index {k} <= len-1", hi)
                for node, desc, vd in model.pre:
                    verdict_ob(ctx, "C18.R3", f, node, f"shuffle: {desc}", vd)
        else:
            ctx.ob("C18.R3", f, f.node, "shuffle loop", None, f"{len(loops)} loops")

    # ---- pop_random
    for f in impls("pop_random"):
        lst = f.params[1]
        pops = [c for c in walk_local(f.node) if isinstance(c, ast.Call) and isinstance(c.func, ast.Attribute)
                and attr_path(c.func.value) == lst and c.func.attr in ("pop", "remove")]
        ctx.ob("C18.R3", f, pops[0] if pops else f.node, "pop_random removes exactly one element", len(pops) == 1,
               "" if len(pops) == 1 else f"{len(pops)} removals from the list")
        env = Env(Facts())
        L = env.symbol(f"len({lst})")
        env.facts.add_ge(L, Lin.c(0))
        model = Model({lst: f"len({lst})"})
        env.hooks.append(model.call)
        env.sub_hooks.append(model.sub)
        outs = interp(f.node.body, env)
        # the variable holding the removed element
        held = None
        for a in f.node.body:
            if isinstance(a, ast.Assign) and isinstance(a.value, ast.Call) and a.value in pops and isinstance(a.targets[0], ast.Name):
                held = a.targets[0].id
        for o in outs:
            if o.kind == "raise":
                continue
            cond = "; ".join(o.conds) or "all"
            okv = o.kind == "return" and isinstance(o.node.value, ast.Name) and o.node.value.id == held
            ctx.ob("C18.R3", f, o.node or f.node, f"pop_random returns the removed element on path [{cond}]", okv,
                   "" if okv else "the returned value is not the element that left the list")
        for s_ in [n for n in walk_local(f.node) if isinstance(n, ast.Assign) and any(
                isinstance(t, ast.Subscript) and isinstance(t.ctx, ast.Store) and attr_path(t.value) == lst for t in ast.walk(n))]:
            ok = _is_exchange(s_, lst, held)
            ctx.ob("C18.R3", f, s_, "remaining stores exchange the held element with a list position", ok,
                   "" if ok else f"'{norm(s_)[:70]}' overwrites a list element: an element other than the returned one is lost")
            for t in ast.walk(s_):
                if isinstance(t, ast.Subscript) and isinstance(t.ctx, ast.Store) and attr_path(t.value) == lst:
                    for o in outs:
                        if any("not" in c for c in o.conds) or len(outs) == 1:
                            model.sub(o.env, t)
        seen = set()
        for node, p, lo, hi in model.index:
            k = (norm(node), isinstance(getattr(node, "ctx", None), ast.Store))
            if k in seen:
                continue
            seen.add(k)
            verdict_ob(ctx, "C18.R3", f, node, f"pop_random index {k[0]} >= 0", lo)
            verdict_ob(ctx, "C18.R3", f, node, f"pop_random index {k[0]} <= len-1", hi)
        for node, desc, vd in model.pre:
            verdict_ob(ctx, "C18.R3", f, node, f"pop_random: {desc}", vd)

    # ---- choice_weighted
    for f in impls("choice_weighted"):
        check_choice_weighted(ctx, f)


def _is_swap(s_: ast.AST, lst: str) -> bool:
    if not (isinstance(s_, ast.Assign) and len(s_.targets) == 1 and isinstance(s_.targets[0], ast.Tuple)
            and isinstance(s_.value, ast.Tuple) and len(s_.targets[0].elts) == 2 == len(s_.value.elts)):
        return False
    t0, t1 = s_.targets[0].elts
    v0, v1 = s_.value.elts
    def same(a, b):
        return isinstance(a, ast.Subscript) and isinstance(b, ast.Subscript) and attr_path(a.value) == attr_path(b.value) == lst \
            and ast.dump(a.slice) == ast.dump(b.slice)
    return same(t0, v1) and same(t1, v0)


def _is_exchange(s_: ast.AST, lst: str, held: Optional[str]) -> bool:
    """lst[i], item = item, lst[i]   (or the mirrored order)"""
    if _is_swap(s_, lst):
        return True
    if not (isinstance(s_, ast.Assign) and len(s_.targets) == 1 and isinstance(s_.targets[0], ast.Tuple)
            and isinstance(s_.value, ast.Tuple) and len(s_.targets[0].elts) == 2 == len(s_.value.elts)):
        return False
    t0, t1 = s_.targets[0].elts
    v0, v1 = s_.value.elts
    def sub(a): return isinstance(a, ast.Subscript) and attr_path(a.value) == lst
    def nm(a): return isinstance(a, ast.Name) and a.id == held
    if sub(t0) and nm(t1) and nm(v0) and sub(v1):
        return ast.dump(t0.slice) == ast.dump(v1.slice)
    if nm(t0) and sub(t1) and sub(v0) and nm(v1):
        return ast.dump(t1.slice) == ast.dump(v0.slice)
    return False


def check_choice_weighted(ctx: Ctx, f: FunctionInfo) -> None:
    choices, weights = f.params[1], f.params[2]
    body = f.node.body
    # accumulated weights, total, draw
    acc = total = draw = None
    draw_call = None
    for a in walk_local(f.node):
        if isinstance(a, (ast.Assign, ast.AnnAssign)):
            tg = a.targets[0] if isinstance(a, ast.Assign) else a.target
            v = a.value
            if not isinstance(tg, ast.Name) or v is None:
                continue
            if any(isinstance(x, ast.Call) and call_name(x) == "accumulate" for x in ast.walk(v)):
                acc = tg.id
            elif isinstance(v, ast.Subscript) and isinstance(v.value, ast.Name) and v.value.id == acc \
                    and isinstance(v.slice, ast.UnaryOp) and isinstance(v.slice.operand, ast.Constant) and v.slice.operand.value == 1:
                total = tg.id
            elif isinstance(v, ast.Call) and call_name(v) == "randint":
                draw, draw_call = tg.id, v
    if not (acc and total and draw):
        ctx.ob("C18.R3", f, f.node, "choice_weighted: accumulated weights / total / draw", None,
               f"cannot identify accumulated weights ({acc}), total ({total}) and draw ({draw})")
        return
    env = Env(Facts())
    T = env.symbol(total)
    env.facts.add_ge(T, Lin.c(1))  # some option has positive weight
    env.vars[total] = T
    lo = evaluate(env, draw_call.args[0])
    ub = evaluate(env, draw_call.args[1])
    if isinstance(lo, Lin) and isinstance(ub, Lin):
        verdict_ob(ctx, "C18.R3", f, draw_call, "weighted draw >= 0", prove_cmp(env.facts, lo, ast.GtE(), Lin.c(0)))
        v = prove_cmp(env.facts, ub, ast.Lt(), T)
        if v.status == FAILS:
            v.detail = (f"the draw can equal the total weight ({v.detail}): it then falls through every comparison and the "
                        f"fall-back option is returned whatever its weight (weights [0, 1] -> the zero-weight option)")
        verdict_ob(ctx, "C18.R3", f, draw_call, "weighted draw < total weight (zero-weight fall-through unreachable)", v)
    else:
        ctx.ob("C18.R3", f, draw_call, "weighted draw bounds", None, "bounds not affine")
    # selection: strict comparison against the accumulated weights, aligned with the options
    loops = [l for l in walk_local(f.node) if isinstance(l, ast.For)]
    bis = [c for c in walk_local(f.node) if isinstance(c, ast.Call) and call_name(c) in ("bisect", "bisect_right", "bisect_left")]
    if bis:
        c = bis[0]
        ok = call_name(c) in ("bisect", "bisect_right") and len(c.args) >= 2 and isinstance(c.args[0], ast.Name) and c.args[0].id == acc \
            and isinstance(c.args[1], ast.Name) and c.args[1].id == draw
        ctx.ob("C18.R3", f, c, "option selected = first accumulated weight strictly above the draw", ok,
               "" if ok else "bisect_left selects the first accumulated weight >= draw: a draw equal to a boundary picks the "
                             "earlier option, so a leading zero-weight option is returned for draw 0")
        return
    if len(loops) != 1:
        ctx.ob("C18.R3", f, f.node, "weighted selection loop", None, f"{len(loops)} loops")
        return
    l = loops[0]
    it = l.iter
    aligned = isinstance(it, ast.Call) and call_name(it) == "zip" and len(it.args) == 2 \
        and isinstance(it.args[0], ast.Name) and it.args[0].id == choices and isinstance(it.args[1], ast.Name) and it.args[1].id == acc \
        and isinstance(l.target, ast.Tuple) and len(l.target.elts) == 2
    ctx.ob("C18.R3", f, l, "options are paired with their own accumulated weights", aligned,
           "" if aligned else f"the loop does not zip the options with the accumulated weights ({norm(it)})")
    if aligned:
        cv, av = l.target.elts[0].id, l.target.elts[1].id
        ifs = [s_ for s_ in l.body if isinstance(s_, ast.If)]
        ok = False
        why = "no 'if draw < acc: return option' in the loop"
        if len(ifs) == 1 and isinstance(ifs[0].test, ast.Compare) and len(ifs[0].test.ops) == 1:
            t = ifs[0].test
            a, op, b = t.left, t.ops[0], t.comparators[0]
            def is_d(e): return isinstance(e, ast.Name) and e.id == draw
            def is_a(e): return isinstance(e, ast.Name) and e.id == av
            strict = (is_d(a) and is_a(b) and isinstance(op, ast.Lt)) or (is_a(a) and is_d(b) and isinstance(op, ast.Gt))
            loose = (is_d(a) and is_a(b) and isinstance(op, ast.LtE)) or (is_a(a) and is_d(b) and isinstance(op, ast.GtE))
            ret = [r for r in ifs[0].body if isinstance(r, ast.Return)]
            ret_ok = len(ret) == 1 and isinstance(ret[0].value, ast.Name) and ret[0].value.id == cv
            ok = strict and ret_ok
            if loose:
                why = "'draw <= acc' selects an option whose accumulated weight equals the draw: with draw 0 a leading " \
                      "zero-weight option is returned"
            elif not ret_ok:
                why = "the loop does not return the option paired with the matching accumulated weight"
        ctx.ob("C18.R3", f, ifs[0] if ifs else l, "option selected = first accumulated weight strictly above the draw", ok,
               "" if ok else why)


def rule_r4(ctx: Ctx) -> None:
    prog = ctx.prog
    n = 0
    for c in prog.subclasses(RANDOM_SOURCE):
        init = c.methods.get("__init__")
        if init is None:
            continue
        priv = None
        for a in walk_local(init.node):
            if isinstance(a, ast.Assign) and is_self_attr(a.targets[0]) and isinstance(a.value, ast.Call):
                t = ctx.res.resolve(init, a.value)
                if t.kind == "external" and t.name in ("random.Random",):
                    priv = a.targets[0].attr
                    seeded = a.value.args and isinstance(a.value.args[0], ast.Name) and a.value.args[0].id in init.params
                    n += 1
                    ctx.ob("C18.R4", init, a, "private generator is random.Random(seed parameter)", bool(seeded),
                           "" if seeded else "the private generator is not seeded from the constructor argument: two "
                                             "sources with the same seed produce different streams")
        if priv is None:
            continue
        for m in c.methods.values():
            for call in walk_local(m.node):
                if isinstance(call, ast.Call):
                    t = ctx.res.resolve(m, call)
                    if isinstance(call.func, ast.Attribute) and is_self_attr(call.func.value, priv):
                        n += 1
                        ctx.ob("C18.R4", m, call, f"self.{priv}.{call.func.attr}", True, "")
                    elif t.kind == "external" and t.name.startswith("random.") and not t.name.startswith("random.Random"):
                        n += 1
                        ctx.ob("C18.R4", m, call, f"draw through the private generator, not {t.name}", False,
                               f"{t.name} uses the process-global generator: streams are shared between sources and "
                               f"not determined by the seed")
    ctx.floor("C18.R4", n, 4, "seeded-source obligations")


def run(ctx: Ctx) -> None:
    ctx.rule("C18.R1", "every randint / decider random_int result lies in [min, max] for all min <= max; moduli positive")
    ctx.rule("C18.R2", "every random_float result lies in [min, max]")
    ctx.rule("C18.R3", "choice / shuffle / pop_random / choice_weighted contracts (indices in range, swaps only, draw < total)")
    ctx.rule("C18.R4", "NativeRandomSource draws only from a private random.Random(seed)")
    rule_r1_r2(ctx)
    rule_r3(ctx)
    rule_r4(ctx)
    ctx.assumptions += [
        "random.Random.randint(a, b) returns an integer in [a, b]; random.Random.random() returns a float in [0, 1)",
        "gene lists are non-empty (representations create gene_length >= 1 genes)",
        "floating-point rounding of u*(max-min)+min is not modelled (real arithmetic)",
    ]
