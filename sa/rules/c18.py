"""C18 - random primitives honour their contracts for every random source (structural clauses)."""
from __future__ import annotations

import ast
from fractions import Fraction
from typing import Any, Optional

from ..absint import (B3, FAILS, HOLDS, UNDECIDED, UNPROVEN, Env, Facts, Lin, Member, Opaque, Outcome, Tup, assume,
                      attr_path, entails_ge0, evaluate, find_model, interp, prove_cmp)
from ..astutil import call_name, is_self_attr
from ..frontend import AnalysisError, FunctionInfo, norm, parent, walk_local
from ..report import Ctx
from .common import DECIDER, RANDOM_SOURCE

LEVEL_TEXT = (
    "(R1/R2) Abstract interpretation (affine relational domain with Fourier-Motzkin entailment and integer "
    "tightening; each random draw is a fresh exact symbol constrained to its range, gene values are arbitrary "
    "integers, pure helper functions inlined) of every implementation found through the RandomSource / "
    "SynthesisDecider hierarchy: randint and the deciders' random_int return a value within [min, max] for all "
    "min <= max, with every modulus provably positive; random_float stays within [min, max]; a template method of"
    " an abstract source (randint calling an abstract hook) is analysed once per concrete subclass; where the "
    "affine domain cannot express a result (a product of two unknowns) the function is interpreted at a grid of "
    "concrete bounds and gene values (ints and floats, degenerate intervals min == max included), and a result "
    "outside the bounds is a definite counterexample (none found decides nothing); a helper with several "
    "returning paths is analysed once per combination of its paths. (R3) choice indexes within range for every "
    "length (affine), and the derived primitives are interpreted exhaustively on small models "
    "(sa/rules/c18model.py: lists of distinct symbols, self.randint taking every value of its range): choice "
    "returns an element for every draw and every element for some draw; shuffle returns its argument as a "
    "permutation, producing each of the n! orders for exactly one draw sequence (n <= 4); pop_random removes "
    "exactly the element it returns, each element for exactly one draw, also from a list holding equal-but-"
    "distinct objects (removal by position, not by value), a store beyond the end of the list raising as in "
    "Python; choice_weighted, on eight weight vectors with zero weights first / last / in the middle and "
    "fractional weights whose truncations differ (either consistent discretisation is accepted), returns for "
    "every draw a comparison can distinguish the option whose cumulative interval contains it - never a zero-"
    "weight option, leaving the caller's option and weight lists as they were - and, when the quantities are "
    "identifiable, draws strictly below the total for every total (affine). (R4) NativeRandomSource draws only "
    "from a private random.Random(seed). (R5) memo-key completeness (sa/memo.py) over every method of the random "
    "sources and deciders: a table of ranges an implementation has seen must be keyed by everything the "
    "remembered value depends on (a key 'max - min' does not determine min). A containment that fails is reported"
    " only with an attainable witness or when it fails on every model."
)

MAXSIZE = "sys.maxsize"


class Model:
    """Call / subscript models shared by the C18 (and C02) interpretations; collects side obligations."""

    def __init__(self, seqs: dict[str, Lin] | None = None):
        self.pre: list[tuple[ast.AST, str, Any]] = []      # (node, description, Verdict)
        self.index: list[tuple[ast.AST, str, Any, Any]] = []  # (node, seq, lower verdict, upper verdict)
        self.seqs = dict(seqs or {})                         # sequence path -> length symbol name

    def call(self, env: Env, c: ast.Call) -> Any:
        f = env.facts
        name = call_name(c)
        args = c.args
        if name == "randint" and len(args) >= 2:
            a, b = evaluate(env, args[0]), evaluate(env, args[1])
            if isinstance(a, Lin) and isinstance(b, Lin):
                self.pre.append((c, f"randint precondition {a!r} <= {b!r}", prove_cmp(f, a, ast.LtE(), b)))
                d = f.fresh("draw", exact=True, integer=True)
                f.add_ge(d, a)
                f.add_le(d, b)
                return d
            return f.fresh("draw", exact=False, integer=True)
        if name == "random" and not args:
            u = f.fresh("u", exact=True, integer=False)
            f.add_ge(u, Lin.c(0))
            f.add_le(u, Lin.c(1))
            return u
        if name == "uniform" and len(args) == 2 and isinstance(c.func, ast.Attribute):
            # random.Random.uniform(a, b) = a + (b - a) * random(): a value between its arguments (either end may be attained)
            a, b = evaluate(env, args[0]), evaluate(env, args[1])
            x = f.fresh("udraw", exact=True, integer=False)
            if isinstance(a, Lin) and isinstance(b, Lin) and prove_cmp(f, a, ast.LtE(), b).status == HOLDS:
                f.add_ge(x, a)
                f.add_le(x, b)
                return x
            return f.fresh("udraw", exact=False, integer=False)
        if name == "random_float" and len(args) >= 2:
            a, b = evaluate(env, args[0]), evaluate(env, args[1])
            x = f.fresh("fdraw", exact=True, integer=False)
            if isinstance(a, Lin) and isinstance(b, Lin):
                self.pre.append((c, f"random_float precondition {a!r} <= {b!r}", prove_cmp(f, a, ast.LtE(), b)))
                f.add_ge(x, a)
                f.add_le(x, b)
            return x
        if name == "random_bool":
            return B3(None)
        if name == "read":
            return f.fresh("gene", exact=True, integer=True)
        if name == "get" and len(args) == 2 and isinstance(c.func, ast.Attribute) and attr_path(c.func.value) in ("self.genotype",):
            return f.fresh("gene", exact=True, integer=True)
        if name == "pow" and len(args) == 2:
            b_, e_ = evaluate(env, args[0]), evaluate(env, args[1])
            p = f.fresh("pow", exact=False, integer=True)
            if isinstance(b_, Lin) and isinstance(e_, Lin) and entails_ge0(f, b_ - Lin.c(1)) and entails_ge0(f, e_):
                f.add_ge(p, Lin.c(1))
            return p
        if name in ("round", "log10", "sqrt", "log", "cos", "normalvariate", "abs", "int") and name != "int":
            r = f.fresh(name, exact=False, integer=(name == "round"))
            if name in ("abs", "sqrt"):
                f.add_ge(r, Lin.c(0))
            return r
        if name == "pop" and isinstance(c.func, ast.Attribute):
            p = attr_path(c.func.value)
            if p in self.seqs:
                L = env.vars.get(f"len({p})", Lin.sym(self.seqs[p]))
                f.add_ge(L, Lin.c(1))  # a successful pop: the list was not empty
                env.vars[f"len({p})"] = L - Lin.c(1)
                return Member(p)
        if name == "choice" and len(args) == 1:
            p = attr_path(args[0])
            return Member(p or norm(args[0]))
        return None

    def sub(self, env: Env, e: ast.Subscript) -> Any:
        f = env.facts
        p = attr_path(e.value)
        if p in self.seqs and not isinstance(e.slice, ast.Slice):
            idx = evaluate(env, e.slice)
            L = env.vars.get(f"len({p})", Lin.sym(self.seqs[p]))
            if isinstance(idx, Lin):
                lo = prove_cmp(f, idx, ast.GtE(), Lin.c(0))
                hi = prove_cmp(f, idx, ast.LtE(), L - Lin.c(1))
                self.index.append((e, p, lo, hi))
            return Member(p)
        if p is not None and p.endswith(".dna") or (isinstance(e.value, ast.Subscript) and (attr_path(e.value.value) or "").endswith(".dna")):
            if isinstance(e.slice, ast.Slice):
                return None
            return f.fresh("gene", exact=True, integer=True)
        if isinstance(e.value, ast.Name) and not isinstance(e.slice, ast.Slice):
            cur = env.vars.get(e.value.id)
            if isinstance(cur, Lin) and len(cur.coef) == 1 and cur.const == 0 and next(iter(cur.coef)).startswith("gene#"):
                # a local bound to (a part of) the gene container: its elements are arbitrary integers as well
                return f.fresh("gene", exact=True, integer=True)
        return None


def base_env(integer: bool = True) -> tuple[Env, Lin, Lin]:
    f = Facts()
    env = Env(f)
    f.ints.add(MAXSIZE)
    f.add_ge(Lin.sym(MAXSIZE), Lin.c(2**31 - 1))
    lo, hi = Lin.sym("min"), Lin.sym("max")
    if integer:
        f.ints |= {"min", "max"}
    f.add_le(lo, hi)
    return env, lo, hi


def verdict_ob(ctx: Ctx, rule: str, fn: FunctionInfo, node: ast.AST, construct: str, v, accepted: dict[str, str] | None = None):
    if v.status == HOLDS:
        ctx.ob(rule, fn, node, construct, True, "")
    elif v.status == FAILS:
        ctx.ob(rule, fn, node, construct, False, v.detail, witness=v.witness)
    else:
        key = f"{fn.fullname}|{construct}"
        if accepted and key in accepted:
            ctx.accept(rule, fn.loc(node), accepted[key])
            ctx.ob(rule, fn, node, construct, True, f"accepted: {accepted[key]}")
        else:
            ctx.ob(rule, fn, node, construct, None, v.detail or v.status)


DRAW_NAMES = ("randint", "random_float", "random", "uniform", "read", "get", "choice", "random_bool")


def _point_witness(ctx: Ctx, fn: FunctionInfo, integer: bool):
    """When the affine domain cannot express a result (a product of two unknowns, ...), the function is interpreted
    (sa/modelinterp, exact integers) at a grid of concrete bounds and gene values - gene lists may hold any non-negative
    integer after mutation.  A result outside [min, max] at one point is a definite counterexample; none found decides
    nothing."""
    from ..modelinterp import Budget, Interp, Sym, UNKNOWN
    params = [p for p in fn.params if p != "self"]
    bounds = [(0, 1), (0, 2000), (-5, 5), (3, 3), (0, 10 ** 6), (-7, 3000)]
    genes = [0, 1, 2, 1023, 1024, 1025, 5000, 2 ** 31 + 11, 2 ** 63 - 1]
    if not integer:
        # floats: ordinary and degenerate intervals (min == max on constants that are not dyadic: rounding must not leave the interval)
        bounds = [(0.0, 1.0), (-5.0, 5.0), (1e-3, 1e3), (1.7, 1.7), (1 / 3, 1 / 3), (0.1, 0.1), (2.718281828459045, 2.718281828459045), (0.1, 0.30000000000000004)]
        genes = [0, 1, 137, 333, 500, 667, 863, 999, 1024, 5003]
    for lo, hi in bounds:
        for g in genes:
            def call_model(it, call, env, args, kwargs, g=g):
                nm = call_name(call)
                if nm in ("read", "get") and isinstance(call.func, ast.Attribute):
                    return g
                if nm == "randint" and isinstance(call.func, ast.Attribute) and len(args) == 2 and all(isinstance(a, int) for a in args) and args[0] <= args[1]:
                    return args[0] + g % (args[1] - args[0] + 1)
                if nm in ("random", "random_float") and isinstance(call.func, ast.Attribute):
                    return (g % 1000) / 1000.0 if nm == "random" or len(args) < 2 else args[0] + (args[1] - args[0]) * ((g % 1000) / 1000.0)
                return None
            it = Interp(ctx.prog, fn.cls, lambda *_: None, call_model, max_depth=4, max_traces=8)
            env = {"self": Sym("self"), params[0]: lo, params[1]: hi}
            try:
                runs = it.run(fn, env)
            except Budget:
                continue
            for trace, rv, notes in runs:
                if notes or any(e.kind == "raise" for e in trace):
                    continue
                if isinstance(rv, (int, float)) and not isinstance(rv, bool) and not (lo <= rv <= hi):
                    return {"min": lo, "max": hi, "gene": g, "result": rv}
    return None


def check_bounded(ctx: Ctx, rule: str, fn: FunctionInfo, integer: bool, cls=None, script: Optional[dict] = None) -> None:
    """result of fn(min, max) lies in [min, max] for all min <= max.  A method of an abstract class that calls an abstract hook
    (template method) is analysed once per concrete subclass that inherits it, with the hook of that subclass inlined."""
    params = [p for p in fn.params if p != "self"]
    if len(params) < 2:
        ctx.ob(rule, fn, fn.node, "bounded draw signature", None, "fewer than two bound parameters")
        return
    env, lo, hi = base_env(integer)
    env.vars[params[0]], env.vars[params[1]] = lo, hi
    model = Model()
    env.hooks.append(model.call)
    env.sub_hooks.append(model.sub)
    from ..inline import make_inline_hook
    ih = make_inline_hook(ctx.prog, cls or fn.cls, fn.module, skip=("randint", "random_float", "random", "read", "get", "choice", "random_bool"))
    env.hooks.append(ih)
    env.assume_hooks.append(ih.assume)

    def typed_call(env_, c_):
        # a call nothing above gives a meaning to (a cursor object's advance(), a table lookup helper): when mypy knows it returns an int / float,
        # it is *some* integer / real - enough for results that are reduced into the range afterwards; no witness is ever claimed from it
        if not isinstance(c_.func, ast.Attribute) or call_name(c_) in DRAW_NAMES or (isinstance(c_.func.value, ast.Name) and c_.func.value.id in ("self", "math")):
            return None          # builtins, the modelled draws and the object's own helpers keep their precise meaning
        try:
            t_ = ctx.types.of(fn.module, c_)
        except Exception:
            return None
        insts_ = t_.instances() if t_ is not None else []
        if insts_ and all(i_.fn == "builtins.int" for i_ in insts_):
            return env_.facts.fresh("someint", exact=False, integer=True)
        if insts_ and all(i_.fn == "builtins.float" for i_ in insts_):
            return env_.facts.fresh("somefloat", exact=False, integer=False)
        return None
    env.hooks.append(typed_call)
    env.choices = {"script": dict(script or {}), "log": {}}
    outs = interp(fn.node.body, env)
    new_sites = sorted(k_ for k_ in env.choices["log"] if k_ not in (script or {}))
    if new_sites:
        # a helper with several returning paths (an if-expression on a draw, ...): one analysis per combination of paths, each exact
        import itertools
        combos = list(itertools.product(*[range(env.choices["log"][k_]) for k_ in new_sites]))
        if len(combos) * max(1, len(script or {})) <= 32:
            for combo in combos:
                check_bounded(ctx, rule, fn, integer, cls=cls, script={**(script or {}), **dict(zip(new_sites, combo))})
            return
    if cls is None and fn.cls is not None:
        from ..frontend import is_stub
        hooks_ = {o.value.why[5:].strip() for o in outs if o.kind == "return" and isinstance(o.value, Opaque) and o.value.why.startswith("call ")}
        abstract_hooks = {h for h in hooks_ if (m := ctx.prog.lookup_method(fn.cls, h)) is not None and is_stub(m.node)}
        if abstract_hooks:
            subs = [c for c in ctx.prog.subclasses(fn.cls.fullname) if ctx.prog.lookup_method(c, fn.name) is fn
                    and all((m := ctx.prog.lookup_method(c, h)) is not None and not is_stub(m.node) for h in abstract_hooks)]
            if subs:
                for c in sorted(subs, key=lambda x: x.fullname):
                    check_bounded(ctx, rule, fn, integer, cls=c)
                return
    tag = f" [{cls.name}]" if cls is not None else ""
    if script:
        tag += " [helper paths " + ", ".join(f"{k_[0]} #{v_ + 1}" for k_, v_ in sorted(script.items())) + "]"
    if not outs:
        ctx.ob(rule, fn, fn.node, "bounded draw", None, "no path")
    for o in outs:
        cond = ("; ".join(o.conds) or "all inputs") + tag
        if o.kind == "raise":
            continue
        if o.kind != "return" or o.value is None:
            ctx.ob(rule, fn, o.node or fn.node, f"result within [min, max] on path [{cond}]", None,
                   f"path ends with {o.kind}: {norm(o.node)[:60] if o.node is not None else ''}")
            continue
        v = o.value
        if isinstance(v, Opaque):
            bad = [n for n in o.env.facts.notes if isinstance(n, tuple) and n[0] in ("bad-modulus", "bad-divisor")]
            kind_ = "bad-modulus" if v.why.startswith("modulus") else "bad-divisor"
            bad = [n for n in bad if n[0] == kind_] + [n for n in bad if n[0] != kind_]     # the operation that made the result opaque first
            if bad and bad[0][2] is not None and v.why.startswith(("modulus", "divisor")):
                what = "modulus" if bad[0][0] == "bad-modulus" else "divisor"
                ctx.ob(rule, fn, o.node, f"every {what} is non-zero/positive on path [{cond}]", False,
                       f"{what} {bad[0][1]} is not positive at {bad[0][2]} (ZeroDivisionError / out-of-range result)",
                       witness=bad[0][2])
            else:
                w = _point_witness(ctx, fn, integer)
                if w is not None:
                    ctx.ob(rule, fn, o.node, f"result within [min, max] on path [{cond}]", False,
                           f"for bounds [{w['min']}, {w['max']}] and a gene / inner draw of {w['gene']} the result is {w['result']}: outside the bounds "
                           f"(gene lists hold any non-negative integer after mutation)", witness=w)
                else:
                    ctx.ob(rule, fn, o.node, f"result within [min, max] on path [{cond}]", None, f"opaque result: {v.why}")
            continue
        if not isinstance(v, Lin):
            ctx.ob(rule, fn, o.node, f"result within [min, max] on path [{cond}]", None, f"non-numeric result {v!r}")
            continue
        f = o.env.facts
        v_lo, v_hi = prove_cmp(f, v, ast.GtE(), lo), prove_cmp(f, v, ast.LtE(), hi)
        if (v_lo.status not in (HOLDS, FAILS) or v_hi.status not in (HOLDS, FAILS)) and (w := _point_witness(ctx, fn, integer)) is not None:
            ctx.ob(rule, fn, o.node, f"result within [min, max] on path [{cond}]", False,
                   f"for bounds [{w['min']}, {w['max']}] and an inner draw of {w['gene']} the result is {w['result']!r}: outside the bounds"
                   + (" (floating-point rounding leaves a degenerate interval)" if w['min'] == w['max'] else ""), witness=w)
            continue
        verdict_ob(ctx, rule, fn, o.node, f"result >= min on path [{cond}]", v_lo)
        verdict_ob(ctx, rule, fn, o.node, f"result <= max on path [{cond}]", v_hi)
    for node, desc, vd in model.pre:
        # inner draws: preconditions that cannot be established are listed (not violations: they concern
        # opaque quantities such as round(log10(width)))
        if vd.status == FAILS:
            ctx.ob(rule, fn, node, f"inner {desc}", False, vd.detail, witness=vd.witness)
        elif vd.status == HOLDS:
            ctx.ob(rule, fn, node, f"inner {desc}", True, "")
        else:
            ctx.notes.append(f"{fn.fullname}: {desc} not established (inexact operand); assumed")


def rule_r1_r2(ctx: Ctx) -> None:
    prog = ctx.prog
    ri = prog.implementations(RANDOM_SOURCE, "randint")
    concrete = [c for c in prog.subclasses(RANDOM_SOURCE) if (m := prog.lookup_method(c, "randint")) is not None and m in ri]
    ctx.floor("C18.R1", len(concrete), 4, "random source classes with a concrete randint (own or inherited)")
    for f in ri:
        check_bounded(ctx, "C18.R1", f, integer=True)
    di = prog.implementations(DECIDER, "random_int")
    ctx.floor("C18.R1", len(di), 2, "decider random_int implementations")
    for f in di:
        check_bounded(ctx, "C18.R1", f, integer=True)
    rf = prog.implementations(RANDOM_SOURCE, "random_float")
    concrete_f = [c for c in prog.subclasses(RANDOM_SOURCE) if (m := prog.lookup_method(c, "random_float")) is not None and m in rf]
    ctx.floor("C18.R2", len(concrete_f), 4, "random source classes with a concrete random_float (own or inherited)")
    for f in rf:
        check_bounded(ctx, "C18.R2", f, integer=False)


def rule_r3(ctx: Ctx) -> None:
    prog = ctx.prog
    rs = prog.get_class(RANDOM_SOURCE)
    # any override of the derived primitives in subclasses is checked the same way
    def impls(name: str) -> list[FunctionInfo]:
        return prog.implementations(RANDOM_SOURCE, name, include_base=True)

    # ---- choice
    for f in impls("choice"):
        seq = f.params[1]
        env = Env(Facts())
        L = env.symbol(f"len({seq})")
        env.facts.add_ge(L, Lin.c(0))
        for a in f.node.body:
            if isinstance(a, ast.Assert) and isinstance(a.test, ast.Name) and a.test.id == seq:
                env.facts.add_ge(L, Lin.c(1))
        model = Model({seq: f"len({seq})"})
        env.hooks.append(model.call)
        env.sub_hooks.append(model.sub)
        outs = interp(f.node.body, env)
        for o in outs:
            if o.kind != "return":
                if o.kind != "raise":
                    ctx.ob("C18.R3", f, o.node or f.node, "choice returns an element", None, f"path ends with {o.kind}")
                continue
            ok = isinstance(o.value, Member) and o.value.of == seq
            ctx.ob("C18.R3", f, o.node, "choice returns an element of its argument", ok,
                   "" if ok else f"choice returns {o.value!r}, not an element of '{seq}'")
        for node, p, lo, hi in model.index:
            verdict_ob(ctx, "C18.R3", f, node, f"choice index >= 0", lo)
            verdict_ob(ctx, "C18.R3", f, node, f"choice index <= len-1", hi)
        for node, desc, vd in model.pre:
            verdict_ob(ctx, "C18.R3", f, node, f"choice: {desc.split(' ')[0]} bounds ordered (non-empty argument)", vd)

    # ---- choice / shuffle / pop_random: exhaustive small-scope models (sa/rules/c18model.py)
    import math
    from ..modelinterp import Budget, Sym, UNKNOWN
    from .c18model import explore, syms
    for f in impls("choice"):
        p_ = f.params[1]
        bad = und = None
        for n_ in ((1, 2, 3) if ctx.tier != "thorough" else (1, 2, 3, 4, 5, 6)):
            items = syms("x", n_)
            try:
                runs = explore(ctx, f.cls, f, {"self": Sym("self"), p_: list(items)})
            except Budget:
                und = "too many interpretations"
                continue
            got = []
            for draws, trace, rv, env_after, notes in runs:
                if notes:
                    und = und or notes[0]
                if any(e.kind == "raise" for e in trace):
                    bad = bad or f"choice fails on a list of {n_} ({[e.name for e in trace if e.kind == 'raise'][0]}) for the draw {draws}"
                elif rv not in items:
                    if rv is UNKNOWN:
                        und = und or "returned value not followed"
                    else:
                        bad = bad or f"choice returns {rv!r}, not an element of its argument (draw {draws})"
                else:
                    got.append(rv)
            if not bad and not und and set(got) != set(items):
                bad = f"on a list of {n_} choice can only return {sorted(set(map(repr, got)))}: some option is never chosen"
        ctx.ob("C18.R3", f, f.node, "choice returns an element of its argument for every draw, and every element for some draw (lists of 1..3)",
               False if bad else (None if und else True), bad or und or "")

    for f in impls("shuffle"):
        p_ = f.params[1]
        bad = und = None
        for n_ in ((0, 1, 2, 3, 4) if ctx.tier != "thorough" else (0, 1, 2, 3, 4, 5)):
            items = syms("x", n_)
            try:
                runs = explore(ctx, f.cls, f, {"self": Sym("self"), p_: list(items)}, max_runs=800)
            except Budget:
                und = "too many interpretations"
                continue
            outcomes = []
            for draws, trace, rv, env_after, notes in runs:
                if notes:
                    und = und or notes[0]
                if any(e.kind == "raise" for e in trace):
                    bad = bad or f"shuffle fails on a list of {n_} ({[e.name for e in trace if e.kind == 'raise'][0]}) for the draws {draws}"
                    continue
                after = env_after.get(p_)
                if rv is not after:
                    bad = bad or "shuffle does not return the list it was given (callers use the return value and the argument interchangeably)"
                if not isinstance(after, list) or sorted(map(repr, after)) != sorted(map(repr, items)):
                    bad = bad or f"after the draws {draws} the list holds {after!r}: not a permutation of {items!r} (an element is duplicated or lost)"
                else:
                    outcomes.append(tuple(after))
            if not bad and not und:
                if len(set(outcomes)) != math.factorial(n_):
                    bad = f"only {len(set(outcomes))} of the {math.factorial(n_)} orders of {n_} elements can be produced"
                elif len(outcomes) != math.factorial(n_):
                    bad = f"{len(outcomes)} draw sequences produce {math.factorial(n_)} orders of {n_} elements: the orders are not equally likely"
        ctx.ob("C18.R3", f, f.node, "shuffle returns its argument as a permutation for every draw; every order exactly once (lists of 0..4)",
               False if bad else (None if und else True), bad or und or "")

    for f in impls("pop_random"):
        p_ = f.params[1]
        bad = und = None
        for n_ in (1, 2, 3):
            items = syms("x", n_)
            try:
                runs = explore(ctx, f.cls, f, {"self": Sym("self"), p_: list(items)})
            except Budget:
                und = "too many interpretations"
                continue
            got = []
            for draws, trace, rv, env_after, notes in runs:
                if notes:
                    und = und or notes[0]
                if any(e.kind == "raise" for e in trace):
                    bad = bad or f"pop_random fails on a list of {n_} ({[e.name for e in trace if e.kind == 'raise'][0]}) for the draw {draws}"
                    continue
                after = env_after.get(p_)
                if rv is UNKNOWN or not isinstance(after, list):
                    und = und or "result not followed"
                    continue
                if rv not in items:
                    bad = bad or f"pop_random returns {rv!r}, not an element of the list (draw {draws})"
                elif sorted(map(repr, after + [rv])) != sorted(map(repr, items)):
                    bad = bad or (f"for the draw {draws} pop_random returns {rv!r} and leaves {after!r} of {items!r}: the element removed is not "
                                  f"the one returned")
                else:
                    got.append(rv)
            if not bad and not und and (set(got) != set(items) or len(got) != n_):
                bad = f"on a list of {n_}: {len(got)} draws return {sorted(set(map(repr, got)))} - not every element exactly once"
        ctx.ob("C18.R3", f, f.node, "pop_random removes exactly the element it returns; every element for exactly one draw (lists of 1..3)",
               False if bad else (None if und else True), bad or und or "")
        # elements that are equal but not identical (equal nodes, nested lists, 1 / 1.0 / True): the object removed is the object returned
        bad = und = None
        try:
            runs = explore(ctx, f.cls, f, {"self": Sym("self"), p_: [[Sym("v")], [Sym("v")], [Sym("w")]]})
        except Budget:
            runs, und = [], "too many interpretations"
        for draws, trace, rv, env_after, notes in runs:
            after = env_after.get(p_)
            if notes or rv is UNKNOWN or not isinstance(after, list) or any(e.kind == "raise" for e in trace):
                und = und or (notes[0] if notes else "result not followed")
                continue
            if any(x is rv for x in after):
                bad = bad or (f"for the draw {draws} on three elements of which two are equal, the object returned is still in the list: another (equal) "
                              f"object was removed - popping a pool empty hands the same object out twice")
            elif len(after) != 2:
                bad = bad or f"for the draw {draws} the list keeps {len(after)} of 3 elements"
        ctx.ob("C18.R3", f, f.node, "pop_random removes the very object it returns (equal but distinct elements)", False if bad else (None if und else True), bad or und or "")

    # ---- choice_weighted
    for f in impls("choice_weighted"):
        check_choice_weighted(ctx, f)


def _is_swap(s_: ast.AST, lst: str) -> bool:
    if not (isinstance(s_, ast.Assign) and len(s_.targets) == 1 and isinstance(s_.targets[0], ast.Tuple)
            and isinstance(s_.value, ast.Tuple) and len(s_.targets[0].elts) == 2 == len(s_.value.elts)):
        return False
    t0, t1 = s_.targets[0].elts
    v0, v1 = s_.value.elts
    def same(a, b):
        return isinstance(a, ast.Subscript) and isinstance(b, ast.Subscript) and attr_path(a.value) == attr_path(b.value) == lst \
            and ast.dump(a.slice) == ast.dump(b.slice)
    return same(t0, v1) and same(t1, v0)


def _is_exchange(s_: ast.AST, lst: str, held: Optional[str]) -> bool:
    """lst[i], item = item, lst[i]   (or the mirrored order)"""
    if _is_swap(s_, lst):
        return True
    if not (isinstance(s_, ast.Assign) and len(s_.targets) == 1 and isinstance(s_.targets[0], ast.Tuple)
            and isinstance(s_.value, ast.Tuple) and len(s_.targets[0].elts) == 2 == len(s_.value.elts)):
        return False
    t0, t1 = s_.targets[0].elts
    v0, v1 = s_.value.elts
    def sub(a): return isinstance(a, ast.Subscript) and attr_path(a.value) == lst
    def nm(a): return isinstance(a, ast.Name) and a.id == held
    if sub(t0) and nm(t1) and nm(v0) and sub(v1):
        return ast.dump(t0.slice) == ast.dump(v1.slice)
    if nm(t0) and sub(t1) and sub(v0) and nm(v1):
        return ast.dump(t1.slice) == ast.dump(v0.slice)
    return False


def check_choice_weighted(ctx: Ctx, f: FunctionInfo) -> None:
    choices, weights = f.params[1], f.params[2]
    body = f.node.body
    # accumulated weights, total, draw
    acc = total = draw = None
    draw_call = None
    for a in walk_local(f.node):
        if isinstance(a, (ast.Assign, ast.AnnAssign)):
            tg = a.targets[0] if isinstance(a, ast.Assign) else a.target
            v = a.value
            if not isinstance(tg, ast.Name) or v is None:
                continue
            if any(isinstance(x, ast.Call) and call_name(x) == "accumulate" for x in ast.walk(v)):
                acc = tg.id
            elif isinstance(v, ast.Subscript) and isinstance(v.value, ast.Name) and v.value.id == acc \
                    and isinstance(v.slice, ast.UnaryOp) and isinstance(v.slice.operand, ast.Constant) and v.slice.operand.value == 1:
                total = tg.id
            elif isinstance(v, ast.Call) and call_name(v) == "randint":
                draw, draw_call = tg.id, v
    if not (acc and total and draw):
        # the affine proof 'draw < total for every total' needs the three quantities by name; without them the
        # small-scope model below still decides the contract on its weight vectors
        ctx.notes.append(f"{f.fullname}: accumulated weights / total / draw not identified by name ({acc}, {total}, {draw}); "
                         f"the affine 'draw < total' proof is skipped, the interpreted model decides")
        weighted_selection_model(ctx, f, "C18.R3")
        return
    env = Env(Facts())
    T = env.symbol(total)
    env.facts.add_ge(T, Lin.c(1))  # some option has positive weight
    env.vars[total] = T
    lo = evaluate(env, draw_call.args[0])
    ub = evaluate(env, draw_call.args[1])
    if isinstance(lo, Lin) and isinstance(ub, Lin):
        verdict_ob(ctx, "C18.R3", f, draw_call, "weighted draw >= 0", prove_cmp(env.facts, lo, ast.GtE(), Lin.c(0)))
        v = prove_cmp(env.facts, ub, ast.Lt(), T)
        if v.status == FAILS:
            v.detail = (f"the draw can equal the total weight ({v.detail}): it then falls through every comparison and the "
                        f"fall-back option is returned whatever its weight (weights [0, 1] -> the zero-weight option)")
        verdict_ob(ctx, "C18.R3", f, draw_call, "weighted draw < total weight (zero-weight fall-through unreachable)", v)
    else:
        ctx.ob("C18.R3", f, draw_call, "weighted draw bounds", None, "bounds not affine")
    weighted_selection_model(ctx, f, "C18.R3")


def weighted_selection_model(ctx: Ctx, f: FunctionInfo, rule: str) -> None:
    """choice_weighted interpreted on five weight vectors (zero weights first, last, in the middle, all but one) for every
    draw a comparison can distinguish (ends of the range, each accumulated threshold, one below, one above): the option
    returned is the one whose cumulative interval contains the draw - never an option of weight zero."""
    from ..modelinterp import Budget, Sym, UNKNOWN
    from .c18model import explore, syms
    choices, weights = f.params[1], f.params[2]
    bad = und = None
    n = 0
    for ws in ([0, 1], [1, 0], [0.5, 0, 1.5], [2, 1], [0, 0, 1], [1, 1, 1], [0, 1 / 3, 1 / 3, 1 / 3], [0.7, 0.1, 0.2]):
        opts = syms("o", len(ws))
        acc, th = 0, []
        for w in ws:
            acc += w
            th.append(int(acc * 100000))
        # a second, equally valid discretisation: every weight truncated on its own (differs by one unit for fractions)
        acc2, th2 = 0, []
        for w in ws:
            acc2 += int(w * 100000)
            th2.append(acc2)
        try:
            runs = explore(ctx, f.cls, f, {"self": Sym("self"), choices: list(opts), weights: list(ws)}, marks=tuple(sorted(set(th + th2))))
        except Budget:
            und = "too many interpretations"
            continue
        for draws, trace, rv, env_after, notes in runs:
            if notes:
                und = und or notes[0]
            if any(e.kind == "raise" for e in trace):
                bad = bad or (f"weights {ws}: choice_weighted fails ({[e.name for e in trace if e.kind == 'raise'][0]}) for the draw {draws}", ws)
                continue
            if len(draws) != 1:
                und = und or f"{len(draws)} draws per call: not the modelled single-draw scheme"
                continue
            after_w, after_c = env_after.get(weights), env_after.get(choices)
            if isinstance(after_w, list) and all(isinstance(x, (int, float)) for x in after_w) and after_w != list(ws):
                bad = bad or (f"weights {ws}: after the call the caller's weight list reads {after_w}: the primitive rewrites its argument, "
                              f"so the next choice over the same list no longer selects in proportion to the weights given", ws)
                continue
            if isinstance(after_c, list) and after_c != list(opts):
                bad = bad or (f"weights {ws}: after the call the caller's option list reads {after_c!r}: the primitive rewrites its argument", ws)
                continue
            n += 1
            d = draws[0]
            want = next((o for o, t in zip(opts, th) if d < t), None)
            want2 = next((o for o, t in zip(opts, th2) if d < t), None)
            if rv is UNKNOWN:
                und = und or "returned option not followed"
            elif want2 is not None and rv == want2:
                pass
            elif want is None:
                bad = bad or (f"weights {ws}: the draw {d} is not below the total weight {th[-1]}: it falls through every comparison and "
                              f"{rv!r} is returned whatever its weight", ws)
            elif rv != want:
                w_rv = ws[opts.index(rv)] if rv in opts else None
                bad = bad or (f"weights {ws}: for the draw {d} the option {rv!r}" + (f" (weight {w_rv})" if w_rv is not None else "") +
                              f" is returned, the draw lies in the interval of {want!r}"
                              + (": an option of zero weight is selected" if w_rv == 0 else ": options are not selected in proportion to their weights"), ws)
    ctx.ob(rule, f, f.node, "weighted choice returns the option whose cumulative interval contains the draw (never a zero-weight option)",
           False if bad else (None if und else True), bad[0] if bad else (und or ""), witness={"weights": bad[1]} if bad else {"draws": n})


def rule_r4(ctx: Ctx) -> None:
    prog = ctx.prog
    n = 0
    for c in prog.subclasses(RANDOM_SOURCE):
        init = c.methods.get("__init__")
        if init is None:
            continue
        priv = None
        for a in walk_local(init.node):
            if isinstance(a, ast.Assign) and is_self_attr(a.targets[0]) and isinstance(a.value, ast.Call):
                t = ctx.res.resolve(init, a.value)
                if t.kind == "external" and t.name in ("random.Random",):
                    priv = a.targets[0].attr
                    seeded = a.value.args and isinstance(a.value.args[0], ast.Name) and a.value.args[0].id in init.params
                    n += 1
                    ctx.ob("C18.R4", init, a, "private generator is random.Random(seed parameter)", bool(seeded),
                           "" if seeded else "the private generator is not seeded from the constructor argument: two "
                                             "sources with the same seed produce different streams")
        if priv is None:
            continue
        for m in c.methods.values():
            for call in walk_local(m.node):
                if isinstance(call, ast.Call):
                    t = ctx.res.resolve(m, call)
                    if isinstance(call.func, ast.Attribute) and is_self_attr(call.func.value, priv):
                        n += 1
                        ctx.ob("C18.R4", m, call, f"self.{priv}.{call.func.attr}", True, "")
                    elif t.kind == "external" and t.name.startswith("random.") and not t.name.startswith("random.Random"):
                        n += 1
                        ctx.ob("C18.R4", m, call, f"draw through the private generator, not {t.name}", False,
                               f"{t.name} uses the process-global generator: streams are shared between sources and "
                               f"not determined by the seed")
    ctx.floor("C18.R4", n, 4, "seeded-source obligations")


def run(ctx: Ctx) -> None:
    ctx.rule("C18.R1", "every randint / decider random_int result lies in [min, max] for all min <= max; moduli positive")
    ctx.rule("C18.R2", "every random_float result lies in [min, max]")
    ctx.rule("C18.R3", "choice / shuffle / pop_random / choice_weighted contracts (indices in range, swaps only, draw < total)")
    ctx.rule("C18.R4", "NativeRandomSource draws only from a private random.Random(seed)")
    rule_r1_r2(ctx)
    rule_r3(ctx)
    rule_r4(ctx)
    # a primitive's result is a function of its arguments and of the stream: whatever an implementation remembers between calls
    # (a table of ranges it has seen) must be keyed by everything the remembered value depends on
    ctx.rule("C18.R5", "primitives keep no memo whose key does not determine the remembered value (bounds of an earlier call must not leak into this one)")
    from .common import memo_rule
    prims = [m for c in list(ctx.prog.subclasses(RANDOM_SOURCE, strict=False)) + list(ctx.prog.subclasses(DECIDER, strict=False)) for m in c.methods.values()]
    n5 = memo_rule(ctx, "C18.R5", {m.fullname: m for m in prims}.values())
    ctx.ob("C18.R5", None, None, "methods of random sources and deciders scanned for memo tables", True, f"{len(prims)} methods, {n5} memo / cursor sites",
           module="geneticengine/random")
    ctx.assumptions += [
        "random.Random.randint(a, b) returns an integer in [a, b]; random.Random.random() returns a float in [0, 1)",
        "gene lists are non-empty (representations create gene_length >= 1 genes)",
        "floating-point rounding of u*(max-min)+min is not modelled (real arithmetic)",
    ]
