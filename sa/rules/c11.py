"""C11 - per-node size and depth metadata matches the actual program structure (structural necessary conditions)."""
from __future__ import annotations

import ast
from typing import Optional

from ..astutil import call_name, guards, is_self_attr
from ..frontend import AnalysisError, FunctionInfo, ancestors, dotted, enclosing_function, norm, parent, walk_local
from ..mutation import MutationAnalysis
from ..report import Ctx
from .common import REPRESENTATION, REPR_MUT, REPR_XO

LEVEL_TEXT = (
    "(R1) every program handed out by a representation entry point has passed through relabel_nodes (must-pass-"
    "through on return chains of the resolved call graph); (R2) the children enumeration used by relabel_nodes "
    "can reach list elements: no branch shadowed by a tautological hasattr test, no run-time use of a name "
    "imported only under TYPE_CHECKING; (R3) every call of relabel_nodes passes is_list = isinstance(node, list) "
    "(directly or through a local holding that test); (R4, R5) the fold itself is interpreted (finite model with "
    "symbolic numbers: helpers, closures and comprehensions inlined) on an inner node with two children - of "
    "different and of the same type - whose own folds return symbolic metadata (n_i, d_i, w_i, type index): "
    "gengy_nodes = 1 + n_1 + n_2, gengy_distance_to_term = max(1, d_1 + 1, d_2 + 1), gengy_weighted_nodes = w_1 +"
    " w_2 + depth, the type index holds the node itself and every node of the children's indexes in order, what "
    "is stored on the node is what is returned to the parent, and the fold neither adopts nor extends a list "
    "owned by a child's metadata; nothing outside relabel_nodes edits a cached index (may-mutate analysis). (R6) "
    "the abstract-expansion table that expansion-depthing metadata adds holds the length of the shortest chain of"
    " abstract expansions (grammar analysis interpreted end to end on the model grammars, sa/rules/grammodel.py);"
    " (R7) whole programs: relabel_nodes_of_trees is interpreted recursively on every program depth-limited "
    "creation can produce on the four creation model grammars (depth <= 3), in both depth modes, and every node's"
    " count, distance, weighted size and type index equal an independent traversal under the repository's own "
    "leaf convention (default mode: base values and productions without fields are leaves of height 0 that are "
    "not counted, pinned by tests/representations/tree_based/relabel_test.py; expansion-depthing mode: leaves "
    "count 1 and every abstract expansion on the way to a child - the shortest chain, R6 - adds one node and one "
    "level). (R8) reused material: mutate is interpreted with donor material whose subtree carries its labels; "
    "what comes back is the donor's own object or a new object that does not keep the donor's 'labelled' flag "
    "together with an index whose entry for its own type is the donor's node (a shallow copy would make "
    "relabel_nodes return early and leave the offspring's index describing the donor). Decided for non-list "
    "children; list nodes are a known finding."
)

RELABEL = "geneticengine.representations.tree.utils:relabel_nodes"
LABELLERS = {"wrap_result", "relabel_nodes_of_trees", "relabel_nodes"}
GET_ARGS = "geneticengine.grammar.utils:get_arguments"
OBJECT_ATTRS = {"__init__", "__class__", "__dict__", "__doc__", "__eq__", "__hash__", "__repr__", "__str__", "__new__", "__module__"}


def labelled_result(ctx: Ctx, fn: FunctionInfo, seen: Optional[set] = None, depth: int = 0) -> tuple[bool, str]:
    """Does every program *fn* can return come out of a labelling call (or is a base value / an already labelled donor)?"""
    seen = seen if seen is not None else set()
    if fn.fullname in seen or depth > 8:
        return True, ""
    seen = seen | {fn.fullname}
    rets = [r for r in walk_local(fn.node) if isinstance(r, ast.Return) and r.value is not None]
    if not rets:
        return True, ""
    for r in rets:
        ok, why = _labelled_expr(ctx, fn, r.value, seen, depth, r)
        if not ok:
            return False, why
    return True, ""


_PRIMITIVES = ("random_int", "random_float", "random_bool", "random_str")


def _is_primitive_caller(ctx: Ctx, fn: FunctionInfo, name: str) -> bool:
    """*name* is a loop variable (or a local) bound to the elements of a module-level table all of whose callables are
    operator.methodcaller(<a base-type primitive of the decider>): calling it draws a base value"""
    def callers_of(table_expr: ast.AST) -> Optional[list]:
        if isinstance(table_expr, ast.Name):
            for st in fn.module.tree.body:
                tg = st.targets[0] if isinstance(st, ast.Assign) and len(st.targets) == 1 else st.target if isinstance(st, ast.AnnAssign) else None
                if isinstance(tg, ast.Name) and tg.id == table_expr.id and getattr(st, "value", None) is not None:
                    return callers_of(st.value)
            return None
        if isinstance(table_expr, (ast.Tuple, ast.List)):
            out = []
            for el in table_expr.elts:
                sub = [x for x in ast.walk(el) if isinstance(x, ast.Call) and call_name(x) == "methodcaller"]
                if len(sub) != 1 or not (sub[0].args and isinstance(sub[0].args[0], ast.Constant)):
                    return None
                out.append(sub[0].args[0].value)
            return out
        if isinstance(table_expr, ast.Dict):
            return callers_of(ast.Tuple(elts=list(table_expr.values), ctx=ast.Load()))
        if isinstance(table_expr, ast.Call) and isinstance(table_expr.func, ast.Attribute) and table_expr.func.attr in ("items", "values"):
            return callers_of(table_expr.func.value)
        return None
    for loop in walk_local(fn.node):
        if isinstance(loop, ast.For) and any(isinstance(t, ast.Name) and t.id == name for t in ast.walk(loop.target)):
            names = callers_of(loop.iter)
            if names and all(n in _PRIMITIVES for n in names):
                return True
    return False


def _labelled_expr(ctx: Ctx, fn: FunctionInfo, e: ast.AST, seen: set, depth: int, at: ast.AST) -> tuple[bool, str]:
    if isinstance(e, ast.Tuple):
        for x in e.elts:
            ok, why = _labelled_expr(ctx, fn, x, seen, depth, at)
            if not ok:
                return ok, why
        return True, ""
    if isinstance(e, ast.Constant):
        return True, ""
    if isinstance(e, ast.Call):
        nm = call_name(e)
        if nm in LABELLERS:
            return True, ""
        if nm in ("random_int", "random_float", "random_bool", "random_str", "choose_options"):
            return True, ""  # base values / an existing (already labelled) node offered to the decider
        if isinstance(e.func, ast.Name) and _is_primitive_caller(ctx, fn, e.func.id):
            return True, ""  # draw(decider) with draw taken from a table of methodcaller("random_int") / ... entries: a base value
        if nm == "mutate" and isinstance(e.func, ast.Attribute) and any(
                c.fullname.endswith("MetaHandlerGenerator") for c in ctx.res.receiver_classes(fn, e.func.value)):
            return True, ""  # refinement-specific mutation of a field value: the enclosing node's fold visits what it returns
        t = ctx.res.resolve(fn, e)
        if not (t.kind == "repo" and t.targets) and isinstance(e.func, ast.Name):
            # a local alias made with functools.partial(f, ...): calling it is calling f
            pdefs = [a for a in walk_local(fn.node) if isinstance(a, ast.Assign) and len(a.targets) == 1 and isinstance(a.targets[0], ast.Name)
                     and a.targets[0].id == e.func.id and isinstance(a.value, ast.Call) and call_name(a.value) == "partial" and a.value.args]
            if len(pdefs) == 1:
                inner = ast.copy_location(ast.Call(func=pdefs[0].value.args[0], args=[], keywords=[]), pdefs[0].value)
                t = ctx.res.resolve(fn, inner)
        if t.kind == "repo" and t.targets:
            for g in t.targets:
                ok, why = labelled_result(ctx, g, seen, depth + 1)
                if not ok:
                    return False, f"{g.qualname}: {why}" if why else g.qualname
            return True, ""
        if nm == "mutate" and isinstance(e.func, ast.Attribute):
            return True, ""  # refinement-specific mutation: the node it returns is visited by the enclosing relabel
        return False, f"'{norm(e)[:60]}' (line {e.lineno}) is returned without passing through relabel_nodes"
    if isinstance(e, ast.Name):
        if e.id in fn.params:
            return True, ""  # the caller's (labelled) object
        defs = [a for a in walk_local(fn.node) if isinstance(a, ast.Assign) and any(isinstance(t, ast.Name) and t.id == e.id for t in a.targets)]
        if not defs:
            return True, ""
        # labelled if some later statement passes the name to a labeller before the return, or every definition is labelled
        from ..astutil import block_of
        from ..frontend import enclosing_stmt
        try:
            blk, idx = block_of(at if isinstance(at, ast.stmt) else enclosing_stmt(at))
        except Exception:
            blk, idx = fn.node.body, len(fn.node.body)
        # a labelling call on this name earlier in the same block (dominates the return)
        for st in blk[:idx]:
            for c in ast.walk(st):
                if isinstance(c, ast.Call) and call_name(c) in LABELLERS and c.args and isinstance(c.args[0], ast.Name) and c.args[0].id == e.id \
                        and not isinstance(st, (ast.If, ast.For, ast.While, ast.Try)):
                    return True, ""
        # otherwise every definition that can reach this return must itself be labelled: the definitions in this block
        # (latest first), else all definitions in the function
        local_defs = [a for a in blk[:idx] if isinstance(a, ast.Assign) and any(isinstance(t, ast.Name) and t.id == e.id for t in a.targets)]
        for d in (local_defs[-1:] or defs):
            ok, why = _labelled_expr(ctx, fn, d.value, seen, depth, at)
            if not ok:
                return ok, why
        return True, ""
    if isinstance(e, ast.Subscript):
        # an element taken out of a container: labelled only if what was put in was labelled
        base = e.value
        while isinstance(base, ast.Subscript):
            base = base.value
        if isinstance(base, ast.Name):
            puts = []
            for c in walk_local(fn.node):
                if isinstance(c, ast.Call) and call_name(c) in ("add_to_stacks", "append") and c.args:
                    if call_name(c) == "add_to_stacks" and isinstance(c.args[0], ast.Name) and c.args[0].id == base.id:
                        puts.append(c.args[-1])
            constructed = [p for p in puts if isinstance(p, ast.Name) and any(
                isinstance(a, ast.Assign) and isinstance(a.value, ast.Call) and call_name(a.value) == "apply_constructor"
                and any(isinstance(t, ast.Name) and t.id == p.id for t in a.targets) for a in walk_local(fn.node))]
            if constructed:
                labelled = any(isinstance(c, ast.Call) and call_name(c) in LABELLERS for c in walk_local(fn.node))
                if not labelled:
                    return False, f"nodes built by apply_constructor are stored in '{base.id}' and returned from it without any relabel_nodes call"
        return True, ""
    if isinstance(e, ast.IfExp):
        a = _labelled_expr(ctx, fn, e.body, seen, depth, at)
        return a if not a[0] else _labelled_expr(ctx, fn, e.orelse, seen, depth, at)
    return True, ""


def reused_material_rule(ctx: Ctx) -> None:
    """Crossover reuses a labelled subtree of the donor as (part of) the offspring.  mutate is interpreted (sa/treemodel.py) with donor
    material present and the donor's subtree carrying its labels (gengy_labeled, counts, a type index that lists the subtree itself).
    What comes back is either that very object - its labels describe it - or a new object; a new object that still says it is
    labelled keeps the donor's index (whose entries are the donor's objects): relabel_nodes returns early on it, so the offspring's
    index never lists the offspring's own root."""
    from ..modelinterp import Budget, Effect, Obj, Sym, UNKNOWN, TypeV
    from ..treemodel import TreeModel
    mu = ctx.prog.functions.get("geneticengine.representations.tree.treebased:mutate")
    if mu is None or "source_material" not in mu.params:
        raise AnalysisError("anchor function missing: tree mutate(..., source_material)")
    NODE = TypeV("class", "N")
    donor = Sym("donor-subtree")

    def extra_choose(it, call, env, args, kwargs):
        opts = args[0] if args else None
        return opts[0] if isinstance(opts, list) and opts else Sym("chosen")

    model = TreeModel(ctx, fields={NODE: [("f1", TypeV("class", "T1"))]}, ints={"mutate:random_int": 0},
                      hasattrs={"node": {}, "__typeof__": {"node": NODE}},
                      extra_calls={"find_in_tree": lambda it, call, env, args, kwargs: [donor], "choose_options": extra_choose,
                                   "has_annotated_mutation": lambda *a, **k: False})
    it = model.interp()
    for a_, v_ in (("gengy_labeled", True), ("gengy_nodes", 1), ("gengy_distance_to_term", 1), ("gengy_weighted_nodes", 1),
                   ("gengy_types_this_way", {NODE: [donor]}), ("gengy_init_values", [Sym("leaf")])):
        it.heap[(donor.tag, a_)] = v_
    p = mu.params
    env = {p[0]: Obj("GlobalSynthesisContext", {"random": Sym("random"), "grammar": Sym("grammar"), "decider": Sym("decider")}),
           p[1]: Sym("node"), p[2]: NODE, "source_material": [Sym("donor")],
           f"{p[1]}.gengy_synthesis_context": Obj("LocalSynthesisContext", {"depth": 1, "nodes": 1, "expansions": 1, "dependent_values": {}}),
           f"{p[1]}.gengy_weighted_nodes": 3, f"{p[1]}.gengy_init_values": [Sym("v1")]}
    if len(p) > 3 and p[3] != "source_material":
        env[p[3]] = {}
    construct = "crossover offspring built from a labelled donor subtree: the labels it carries describe the offspring's own nodes"
    try:
        runs = it.run(mu, env)
    except Budget:
        ctx.ob("C11.R8", mu, mu.node, construct, None, "too many interpretations")
        return
    verdict: Optional[bool] = True
    why = ""
    for trace, rv, notes in runs:
        if any(e.kind == "raise" for e in trace):
            continue
        if rv == donor:
            continue            # the donor's own object: its labels are its own
        if not isinstance(rv, (Sym, Obj)):
            verdict, why = (None, f"the offspring is not followed ({rv!r})") if verdict is True else (verdict, why)
            continue
        get = (lambda a_: rv.fields.get(a_)) if isinstance(rv, Obj) else (lambda a_: it.heap.get((rv.tag, a_)))
        if get("gengy_labeled") is True:
            idx = get("gengy_types_this_way")
            first = idx.get(NODE, [None])[0] if isinstance(idx, dict) and idx.get(NODE) else None
            if first is not rv and first != rv:
                verdict = False
                why = (f"the offspring's root is a new object ({rv!r}) that still carries gengy_labeled = True and the donor's type index, whose entry for its own "
                       f"type is {first!r}: relabel_nodes returns early on it, so the offspring's index lists the donor's node instead of the offspring's root "
                       f"(stale labels on reused material)")
                break
    ctx.ob("C11.R8", mu, mu.node, construct, verdict, why)


def run(ctx: Ctx) -> None:
    prog, res = ctx.prog, ctx.res
    ctx.rule("C11.R8", "subtrees reused by crossover carry labels that describe the offspring (a copied root does not keep the donor's 'labelled' flag and index)")
    reused_material_rule(ctx)
    from .grammodel import analysis_rule
    ctx.rule("C11.R6", "the abstract-expansion table that expansion-depthing metadata adds is the shortest chain of abstract expansions "
                       "(grammar analysis interpreted end to end on the model grammars)")
    ctx.floor("C11.R6", analysis_rule(ctx, "C11.R6", ("hops",)), 16, "model grammar x mode")
    from .labelmodel import label_rule
    ctx.rule("C11.R7", "whole programs: relabel_nodes_of_trees interpreted on every model program of depth <= 3; every node's count, "
                       "distance, weighted size and type index equal an independent traversal (both depth modes)")
    ctx.floor("C11.R7", label_rule(ctx, "C11.R7"), 8, "creation model grammars x depth mode")
    ctx.rule("C11.R1", "every program returned by a representation entry point has passed through relabel_nodes")
    ctx.rule("C11.R2", "children enumeration reaches list elements: no tautologically shadowed branch, no TYPE_CHECKING-only name at run time")
    ctx.rule("C11.R3", "every relabel_nodes call passes is_list = isinstance(node, list)")
    ctx.rule("C11.R4", "the fold does not alias or modify metadata owned by a child")
    rl = prog.get_function(RELABEL)

    # ---- R1
    entries: list[FunctionInfo] = []
    for f in prog.implementations(REPRESENTATION, "genotype_to_phenotype"):
        entries.append(f)
    for f in prog.implementations(REPRESENTATION, "create_genotype") + prog.implementations(REPR_MUT, "mutate") + prog.implementations(REPR_XO, "crossover"):
        if f.cls is not None and "Tree" in f.cls.name:
            entries.append(f)
    n1 = 0
    for f in sorted(entries, key=lambda x: x.fullname):
        if len(f.node.body) == 1 and isinstance(f.node.body[0], ast.Return) and isinstance(f.node.body[0].value, ast.Name):
            continue  # identity mapping (tree genotype == phenotype)
        n1 += 1
        ok, why = labelled_result(ctx, f)
        ctx.ob("C11.R1", f, f.node, f"{f.cls.name if f.cls else ''}.{f.name} returns labelled programs", ok,
               "" if ok else f"a program reaches the caller unlabelled: {why}; its nodes carry no gengy_nodes / gengy_distance_to_term / "
                             f"gengy_types_this_way")
    ctx.floor("C11.R1", n1, 7, "program-producing representation entry points")

    # ---- R2 contradiction rules
    n2 = 0
    for f in prog.functions.values():
        for n in walk_local(f.node):
            if isinstance(n, ast.If):
                # if hasattr(x, "<attr of object>"): ... elif/else ...   -> the alternative is dead
                t = n.test
                if isinstance(t, ast.Call) and call_name(t) == "hasattr" and len(t.args) == 2 and isinstance(t.args[1], ast.Constant) \
                        and t.args[1].value in OBJECT_ATTRS and n.orelse:
                    body_exits = any(isinstance(s, (ast.Return, ast.Raise)) for s in n.body)
                    dead = n.orelse
                    n2 += 1
                    uses_list = any(isinstance(x, ast.Name) and x.id == "GengyList" or isinstance(x, ast.Call) and call_name(x) in ("range", "len")
                                    for s in dead for x in ast.walk(s))
                    ctx.ob("C11.R2", f, n, f"branch after tautological hasattr(., {t.args[1].value!r})", False,
                           f"every object has '{t.args[1].value}', so the alternative branch ({norm(dead[0])[:60]}...) can never run"
                           + ("; it is the branch that enumerates the elements of a list node, so list children are never folded into the metadata" if uses_list else ""))
    # TYPE_CHECKING-only names used at run time
    for m in prog.modules.values():
        for nm in sorted(m.type_checking_only):
            for f in m.functions.values():
                for x in walk_local(f.node):
                    if isinstance(x, ast.Name) and x.id == nm and isinstance(x.ctx, ast.Load) and not _in_annotation(x):
                        n2 += 1
                        ctx.ob("C11.R2", f, x, f"run-time use of TYPE_CHECKING-only name {nm}", False,
                               f"'{nm}' is imported only under TYPE_CHECKING: evaluating '{norm(parent(x))[:50]}' raises NameError if it is ever reached")
    # relabel_nodes' child enumeration consults get_arguments for nodes carrying gengy_init_values
    ga = prog.functions.get(GET_ARGS)
    if ga is None:
        raise AnalysisError("C11: get_arguments anchor missing")
    ctx.floor("C11.R2", n2, 1, "contradiction-rule instances")

    # ---- R3
    n3 = 0
    for f in prog.functions.values():
        for c in walk_local(f.node, include_nested=False):
            if isinstance(c, ast.Call) and call_name(c) == "relabel_nodes" and isinstance(c.func, ast.Name):
                n3 += 1
                first = c.args[0] if c.args else None
                flag = c.args[2] if len(c.args) > 2 else next((k.value for k in c.keywords if k.arg == "is_list"), None)
                if isinstance(flag, ast.Name):
                    # the flag computed into a local first: follow its single assignment
                    defs_ = [a_ for a_ in walk_local(f.node) if isinstance(a_, ast.Assign) and len(a_.targets) == 1 and isinstance(a_.targets[0], ast.Name)
                             and a_.targets[0].id == flag.id]
                    if len(defs_) == 1:
                        flag = defs_[0].value
                ok = flag is not None and isinstance(flag, ast.Call) and call_name(flag) == "isinstance" and len(flag.args) == 2 \
                    and first is not None and norm(flag.args[0]) == norm(first) and norm(flag.args[1]) in ("list", "GengyList")
                ctx.ob("C11.R3", f, c, f"relabel_nodes({norm(first) if first is not None else '?'}, ..) passes the list flag", ok,
                       "" if ok else "is_list is not passed (defaults to False): a list value reaching this call is folded as one ordinary node "
                                     "(1 node, distance 1) and memoised that way")
    ctx.floor("C11.R3", n3, 2, "relabel_nodes call sites")

    # ---- R4 / R5: the fold itself, interpreted (sa/modelinterp; helpers, closures and comprehensions inlined) on an inner node
    # with two children whose own folds return symbolic metadata
    ctx.rule("C11.R5", "fold arithmetic: nodes = 1 + sum, depth = max(1, child depth + 1), weighted = sum + depth, type index = own + children's")
    _fold_model(ctx, rl)
    # cached metadata containers are written by relabel_nodes only
    META = ("gengy_types_this_way",)

    def is_meta(fn_: FunctionInfo, e: ast.AST) -> bool:
        return isinstance(e, ast.Attribute) and e.attr in META

    def reads_meta(x: ast.AST) -> bool:
        # o.gengy_types_this_way, getattr(o, "gengy_types_this_way", ...), attrgetter("gengy_types_this_way")
        return (isinstance(x, ast.Attribute) and x.attr in META) or (
            isinstance(x, ast.Call) and call_name(x) in ("getattr", "attrgetter", "hasattr") and any(isinstance(a, ast.Constant) and a.value in META for a in x.args))

    ma2 = MutationAnalysis(prog, res, depth=3)
    nmeta = 0
    for f in sorted(prog.functions.values(), key=lambda x: x.fullname):
        if f is rl or f.parent is not None:
            continue
        if not any(reads_meta(x) for x in walk_local(f.node, include_nested=True)) and not any(
                isinstance(c, ast.Call) and call_name(c) == "find_in_tree" for c in walk_local(f.node)):
            continue
        nmeta += 1
        muts = ma2.analyse(f, {}, is_meta, attr_store_on_root=False)
        ctx.ob("C11.R4", f, muts[0].node if muts else f.node, f"{f.qualname} only reads the cached type index", not muts,
               "" if not muts else f"'{norm(muts[0].node)[:70]}' ({muts[0].how}) edits a node's cached gengy_types_this_way list outside "
                                   f"relabel_nodes: the index no longer lists the nodes beneath that node")
    ctx.floor("C11.R4", nmeta, 2, "functions reading the cached type index")
    ctx.assumptions += ["nodes offered as crossover donors and nodes returned by refinement-specific mutate() are (re)labelled by the enclosing node's fold"]


def _fold_model(ctx: Ctx, rl: FunctionInfo) -> None:
    from ..absint import Lin
    from ..modelinterp import Budget, DDict, Effect, Interp, MaxV, Sym, UNKNOWN, _NONE
    prog = ctx.prog
    node_p = rl.params[0]
    bad: dict[str, str] = {}
    und = None
    n = 0
    for same_type in (False, True):
        child_types = {"c1": "TC1", "c2": "TC1" if same_type else "TC2"}
        child_lists: dict[str, list] = {}

        def reset(child_lists=child_lists):
            child_lists.clear()

        def call_model(it, call, env, args, kwargs, child_types=child_types, child_lists=child_lists):
            nm = call_name(call)
            if nm == "getattr" and len(args) >= 2 and isinstance(args[0], Sym) and args[1] == "gengy_labeled":
                return False
            if nm == "hasattr" and len(args) == 2 and isinstance(args[0], Sym):
                return args[1] == "gengy_init_values" and args[0].tag == "node"
            if nm == "is_terminal":
                return False
            if nm in ("is_builtin", "is_abstract"):
                return False
            if nm == "type" and len(args) == 1 and isinstance(args[0], Sym):
                return Sym("type:" + (child_types.get(args[0].tag, args[0].tag)))
            if nm == "get_arguments":
                return [["f1", Sym("T1")], ["f2", Sym("T2")]]
            if nm == rl.name and isinstance(call.func, ast.Name):
                c_ = args[0]
                t = c_.tag if isinstance(c_, Sym) else "?"
                lst = [c_]
                child_lists[t] = lst
                flag = args[2] if len(args) > 2 else kwargs.get("is_list", False)
                it.trace.append(Effect("call", "relabel_child", (c_, flag), {}, node=call))
                return [Lin.sym(f"n_{t}"), Lin.sym(f"d_{t}"), {"type:" + child_types.get(t, t): lst}, Lin.sym(f"w_{t}")]
            if nm == "defaultdict":
                return DDict()
            if nm == "isinstance" and len(args) == 2 and isinstance(args[0], Sym):
                return False
            return None

        it = Interp(prog, None, lambda *_: None, call_model, max_depth=5, max_traces=32)
        it.on_start = reset
        env = {node_p: Sym("node"), rl.params[1]: Sym("grammar"), f"{node_p}.gengy_init_values": [Sym("c1"), Sym("c2")],
               f"{rl.params[1]}.expansion_depthing": False}
        for p_ in rl.params[2:]:
            env[p_] = False
        try:
            runs = it.run(rl, env)
        except Budget:
            und = "too many interpretations"
            continue
        for trace, rv, notes in runs:
            if any(e.kind == "raise" for e in trace):
                continue
            n += 1
            if not (isinstance(rv, list) and len(rv) == 4):
                und = und or f"the fold's result is not followed ({rv!r})"
                continue
            nodes, dist, types, weighted = rv
            from ..modelinterp import _lin
            if not isinstance(nodes, Lin) and _lin(nodes) is not None:
                nodes = _lin(nodes)
            if not isinstance(dist, (Lin, MaxV)) and _lin(dist) is not None:
                dist = _lin(dist)
            if not isinstance(weighted, (Lin, MaxV)) and _lin(weighted) is not None:
                weighted = _lin(weighted)
            n1, n2, d1, d2, w1, w2 = (Lin.sym(x) for x in ("n_c1", "n_c2", "d_c1", "d_c2", "w_c1", "w_c2"))
            one = Lin.c(1)
            if nodes != one + n1 + n2:
                if isinstance(nodes, Lin):
                    bad.setdefault("nodes", f"an inner node with children of n_c1 and n_c2 nodes gets gengy_nodes = {nodes!r}, expected 1 + n_c1 + n_c2")
                else:
                    und = und or f"node count not followed ({nodes!r})"
            want_items = {one, d1 + one, d2 + one}
            if isinstance(dist, MaxV) and dist.kind == "max" and isinstance(dist.offset, Lin) or (isinstance(dist, MaxV) and dist.offset == 0):
                off = dist.offset if isinstance(dist.offset, Lin) else Lin.c(dist.offset)
                items = {x + off for x in dist.items}
                if not (items == want_items or items == {d1 + one, d2 + one}):
                    bad.setdefault("depth", f"gengy_distance_to_term = {dist!r}, expected max(1, d_c1 + 1, d_c2 + 1)")
            elif isinstance(dist, Lin):
                bad.setdefault("depth", f"gengy_distance_to_term = {dist!r}: not the maximum over the children")
            else:
                und = und or f"depth not followed ({dist!r})"
            if isinstance(weighted, MaxV) and isinstance(dist, MaxV):
                woff = weighted.offset if isinstance(weighted.offset, Lin) else Lin.c(weighted.offset)
                doff = dist.offset if isinstance(dist.offset, Lin) else Lin.c(dist.offset)
                if not (set(weighted.items) == set(dist.items) and woff - doff == w1 + w2):
                    bad.setdefault("weighted", f"gengy_weighted_nodes = {weighted!r}, expected w_c1 + w_c2 + depth")
            elif isinstance(weighted, Lin):
                bad.setdefault("weighted", f"gengy_weighted_nodes = {weighted!r}: the node's own depth points are not added")
            else:
                und = und or f"weighted count not followed ({weighted!r})"
            # type index: own entry + the children's, children's lists neither adopted nor extended
            if isinstance(types, dict):
                own = types.get("type:node")
                if own != [Sym("node")]:
                    bad.setdefault("types", f"the node's own entry in its type index is {own!r}, expected [node]")
                for t, ct in child_types.items():
                    pass
                want = {"type:TC1": [Sym("c1"), Sym("c2")]} if same_type else {"type:TC1": [Sym("c1")], "type:TC2": [Sym("c2")]}
                for k, v in want.items():
                    if types.get(k) != v:
                        bad.setdefault("types", f"the type index lists {types.get(k)!r} under {k}, expected {v!r}")
                for t, lst in child_lists.items():
                    if lst != [Sym(t)]:
                        bad.setdefault("alias", f"the fold of the parent changes the child {t}'s own type index to {lst!r}: a later sibling is appended to the "
                                                f"child's list, so inner nodes list nodes that are not beneath them")
                    if any(v is lst for v in types.values()):
                        bad.setdefault("alias", f"the parent's type index adopts the list object owned by child {t}'s metadata: later additions to the "
                                                f"parent's index change the child's")
            else:
                und = und or "type index not followed"
            # what is stored on the node is what is returned
            stores = {e.name.split(".", 1)[1]: e.args[0] for e in trace if e.kind == "store" and e.name.startswith("node.gengy_")}
            for attr, val in (("gengy_nodes", nodes), ("gengy_distance_to_term", dist), ("gengy_weighted_nodes", weighted)):
                if attr in stores and repr(stores[attr]) != repr(val):
                    bad.setdefault("stored", f"node.{attr} is set to {stores[attr]!r} but {val!r} is returned to the parent")
                elif attr not in stores:
                    bad.setdefault("stored", f"node.{attr} is never stored")
            flags = [e.args[1] for e in trace if e.kind == "call" and e.name == "relabel_child"]
            if any(f_ is not False for f_ in flags):
                bad.setdefault("flag", f"children that are not lists are folded with is_list = {flags!r}")
    for key, rule, desc in (("nodes", "C11.R5", "gengy_nodes of an inner node = 1 + the children's"),
                            ("depth", "C11.R5", "gengy_distance_to_term = max(1, children's + 1)"),
                            ("weighted", "C11.R5", "gengy_weighted_nodes = the children's + the node's depth"),
                            ("types", "C11.R5", "the type index holds the node itself and every node of the children's indexes, in order"),
                            ("stored", "C11.R5", "the metadata stored on the node is the metadata handed to its parent"),
                            ("alias", "C11.R4", "the fold neither adopts nor extends a list owned by a child's metadata"),
                            ("flag", "C11.R3", "the recursive fold passes is_list = isinstance(child, list)")):
        b = bad.get(key)
        if key == "flag" and not b:
            continue
        ctx.ob(rule, rl, rl.node, f"relabel_nodes: {desc}", False if b else (None if und else True), b or und or "", witness={"scenarios": n})
    ctx.floor("C11.R5", n, 2, "interpreted fold scenarios")


def _in_annotation(x: ast.AST) -> bool:
    child = x
    for a in ancestors(x):
        if isinstance(a, ast.AnnAssign) and a.annotation is child:
            return True
        if isinstance(a, ast.arg):
            return True
        if isinstance(a, (ast.FunctionDef, ast.AsyncFunctionDef)) and a.returns is child:
            return True
        child = a
    return False
