"""Finite models of the genotype-level variation operators (C06 R1-R3), interpreted by sa/modelinterp.

Parents are genotype objects of the representation's own Genotype dataclass whose genes are distinct symbols (a1..a4 /
b1..b4, or per-key lists); the random source is a script: the cut / index / key / mask draws take every value of a small
range, a draw of a new gene value is the symbol 'newgene'.  The operator's source is interpreted (helper functions,
methods of the genotype and closures inlined) and the offspring genes are compared with what recombination / point
mutation mean.  Nothing is executed."""
from __future__ import annotations

import ast
from typing import Any, Optional

from ..astutil import call_name
from ..frontend import FunctionInfo
from ..modelinterp import Budget, Interp, Obj, Sym, UNKNOWN, _NONE, Effect


def genotype_class(ctx, f: FunctionInfo):
    for mod in ([f.cls.module] if f.cls is not None else []) + [f.module]:
        full = ctx.prog.resolve_name(mod, "Genotype")
        if full and full in ctx.prog.classes:
            return ctx.prog.classes[full]
    return None


def _deep(v: Any, memo: Optional[dict] = None) -> Any:
    """copy.deepcopy on model values: like the real one it keeps sharing *inside* the copied structure (memo by identity)"""
    memo = {} if memo is None else memo
    if id(v) in memo:
        return memo[id(v)]
    if isinstance(v, list):
        out: Any = []
        memo[id(v)] = out
        out.extend(_deep(x, memo) for x in v)
        return out
    if isinstance(v, dict):
        out = {}
        memo[id(v)] = out
        for k, x in v.items():
            out[k] = _deep(x, memo)
        return out
    return v


class Script:
    """scripted random source: ints for positional draws, bools for mask bits, index for choice"""
    def __init__(self, ints: list, bools: list, choice_idx: int = 0):
        self.ints0, self.bools0, self.choice_idx = list(ints), list(bools), choice_idx
        self.reset()

    def reset(self):
        self.ints, self.bools = list(self.ints0), list(self.bools0)
        self.last = None
        self.draw_ranges: list = []

    def call_model(self, it: Interp, call: ast.Call, env: dict, args: list, kwargs: dict) -> Any:
        nm = call_name(call)
        if nm == "randint" and len(args) == 2:
            hi = args[1]
            if hi is UNKNOWN or (isinstance(hi, int) and hi >= 1000 and not self.ints):
                return Sym("newgene")
            if isinstance(hi, Sym):
                return Sym("newgene")
            if self.ints:
                v = self.ints.pop(0)
                self.draw_ranges.append((args[0], args[1], v))
                self.last = v
                return v
            if isinstance(hi, int) and isinstance(args[0], int) and hi < 1000 and getattr(self, "last", None) is not None and hi >= args[0]:
                # a further positional draw (a retry): another position of the same range
                v = args[0] + (self.last - args[0] + 1) % (hi - args[0] + 1)
                self.draw_ranges.append((args[0], args[1], v))
                self.last = v
                return v
            return Sym("newgene")
        if nm == "random_bool" and not args:
            return self.bools.pop(0) if self.bools else UNKNOWN
        if nm == "choice" and len(args) == 1 and isinstance(args[0], list) and args[0]:
            return args[0][self.choice_idx % len(args[0])]
        if nm in ("create_tree_using_stacks", "genotype_to_phenotype", "random_tree", "random_node") and not (isinstance(call.func, ast.Attribute)
                                                                                                            and isinstance(call.func.value, ast.Name) and call.func.value.id == "self" and nm == "genotype_to_phenotype" and False):
            # mapping a genotype inside an operator (a viability test): it succeeds or fails with the library's error - both are explored
            if it.choose():
                return Sym("phenotype")
            it.throw("GeneticEngineError: the genotype does not map", call)
        if nm == "deepcopy" and len(args) == 1:
            return _deep(args[0])
        if nm == "copy" and len(args) == 1 and isinstance(call.func, (ast.Name, ast.Attribute)):
            v = args[0]
            return list(v) if isinstance(v, list) else dict(v) if isinstance(v, dict) else v
        if nm == "Genotype_ctor":
            return None
        return None


def make_parent(gcls, dna: Any, tag: str) -> Obj:
    from ..modelinterp import _dataclass_fields
    fields = {}
    return Obj(gcls.name, fields, gcls.fullname)


def run_operator(ctx, f: FunctionInfo, script: Script, env_extra: dict, parents: dict):
    it = Interp(ctx.prog, f.cls, lambda *_: None, script.call_model, max_depth=5, max_traces=80)
    it.on_start = script.reset
    env = {"self": Sym("self"), f.params[1]: Sym("random")}
    env.update(env_extra)
    env.update(parents)
    res = it.run(f, env)
    return res, it.envs
