"""A finite model of the stack-based mapper (create_tree_using_stacks), interpreted by sa/modelinterp.

The mapper repeatedly picks a target type and builds a value of it from values popped off per-type stacks.  In the model the
choice of the target type is a script (a short sequence of symbolic types that ends with the start symbol), every base value
the random source produces is a symbol that records its kind ('int#1', 'bool#2'), try/except IndexError is followed, and
apply_constructor is recorded with its arguments.  The rules compare what is built with what the grammar declares."""
from __future__ import annotations

import ast
from typing import Any, Optional

from ..astutil import call_name
from ..frontend import AnalysisError
from ..modelinterp import BUILTIN_TYPES, Budget, Effect, Interp, Sym, TypeV, UNKNOWN, _NONE
from ..treemodel import TreeModel

STACK = "geneticengine.representations.stackgggp:create_tree_using_stacks"
INT, BOOL, FLOAT = BUILTIN_TYPES["int"], BUILTIN_TYPES["bool"], BUILTIN_TYPES["float"]


def kind_of(v: Any) -> str:
    if isinstance(v, Sym):
        return v.tag.split("#")[0]
    if isinstance(v, list):
        return "list"
    return "?"


def run_stack(ctx, start: TypeV, script: list, fields: dict, alternatives: dict, mentioned: list, validate=None, weights: dict = None, capture: list = None):
    """interpret create_tree_using_stacks(g, r) with the scripted sequence of target types"""
    fn = ctx.prog.functions.get(STACK)
    if fn is None:
        raise AnalysisError(f"anchor function missing: {STACK}")
    model = TreeModel(ctx, abstract=tuple(alternatives), fields=fields, alternatives=alternatives)
    state = {"script": list(script), "k": 0}

    def reset():
        state["script"], state["k"] = list(script), 0

    def fresh(kind: str) -> Sym:
        state["k"] += 1
        return Sym(f"{kind}#{state['k']}")

    def call_model(it, call, env, args, kwargs):
        nm = call_name(call)
        recv = it.ev(call.func.value, env, 9) if isinstance(call.func, ast.Attribute) else None
        if nm == "get_all_mentioned_symbols":
            return list(mentioned)
        if nm == "get_weights":
            return dict(weights) if weights is not None else {}
        if nm == "choice_weighted" and args and isinstance(args[0], list):
            if capture is not None:
                capture.append((list(args[0]), list(args[1]) if len(args) > 1 and isinstance(args[1], list) else None))
            if not state["script"]:
                it.throw("ModelEnd: script exhausted", call)
            return state["script"].pop(0)
        if nm == "choice" and len(args) == 1 and isinstance(args[0], list) and isinstance(recv, Sym) and recv.tag == "r":
            if not args[0]:
                it.throw("IndexError: choice from an empty list", call)
            return args[0][0]
        if nm == "randint" and isinstance(recv, Sym) and recv.tag == "r" and len(args) == 2:
            if isinstance(args[1], int) and not isinstance(args[1], bool) and args[1] <= 16 and isinstance(args[0], int):
                return args[1]          # list lengths: take everything that is available
            return fresh("int")
        if nm == "random_float" and isinstance(recv, Sym) and recv.tag == "r":
            return fresh("float")
        if nm == "random_bool" and isinstance(recv, Sym) and recv.tag == "r":
            return fresh("bool")
        if nm == "validate" and isinstance(call.func, ast.Attribute):
            it.trace.append(Effect("call", "validate", tuple(args), {}, node=call, fn=it.fn_stack[-1], recv=recv))
            return True if validate is None else validate(args[0] if args else None)
        if nm == "get_args" and len(args) == 1 and isinstance(args[0], TypeV) and args[0].kind == "annotated":
            return [args[0].args[0], args[0].meta]
        if nm == "get_arguments" and len(args) == 1 and isinstance(args[0], TypeV) and args[0] not in fields:
            return []     # a typing alias / base type declares no fields
        if nm == "issubclass" and len(args) == 2 and all(isinstance(a, TypeV) for a in args):
            a, b = args
            return a == b or (a == BOOL and b == INT) or (b in alternatives and a in alternatives[b])
        r_ = model.call_model(it, call, env, args, kwargs)
        return r_

    it = Interp(ctx.prog, None, model.atom, call_model, max_depth=5, max_traces=16)
    it.on_start = reset
    it.strict_index = True
    it.while_cap = len(script) + 4
    p = fn.params
    env = {p[0]: Sym("g"), p[1]: Sym("r"), "g.starting_symbol": start}
    if len(p) > 2:
        env[p[2]] = 3
    return it.run(fn, env)
