"""C10 - the grammar is read-only during synthesis and search (structural clauses)."""
from __future__ import annotations

import ast
from typing import Optional

from ..astutil import call_name, guards, is_self_attr
from ..frontend import AnalysisError, FunctionInfo, dotted, norm, parent, walk_local
from ..mutation import MutationAnalysis
from ..report import Ctx
from .common import GRAMMAR

LEVEL_TEXT = (
    "Static rules: (R1) may-mutate effect analysis with a freshness lattice over every function outside the "
    "grammar's construction set: no item store, del, in-place augmented assignment or mutating container method "
    "(append/remove/pop/update/...) is applied to a value owned by a Grammar - the Grammar-typed expression "
    "itself, its attribute containers, their elements/views, local aliases, conditional aliases ('copy only if "
    "...') and fields every store of which is such an alias (self._table = grammar.table) - directly or through a"
    " resolved callee that mutates the corresponding parameter; copies (list(), comprehension, slice, copy, "
    "deepcopy) end ownership; (R2) registration / preprocessing / weight rewriting are called only from the "
    "construction set and production weights are written - by item store, setdefault, update, __setitem__, pop or"
    " del - only by the weight decorator and update_weights (reading a weight must not declare one); (R3) the "
    "grammar's observable tables are not auto-vivifying (a defaultdict would turn every unguarded read into an "
    "insertion) or every read outside construction is membership-guarded. (R4) the refinement objects attached to"
    " annotated types are part of the grammar: no method of a MetaHandlerGenerator subclass other than its "
    "constructor modifies the object's own state - attributes, their containers, elements and views such as the "
    "rows of a probability matrix - directly or by passing them to a callee that writes to the corresponding "
    "parameter (e.g. a random primitive that accumulates its weights in place). Decides this for all grammars and"
    " all operation sequences, including failing and backtracking ones; does not decide mutation through dynamic "
    "attribute names or user code."
)

CONSTRUCTION = {
    "geneticengine.grammar.grammar:Grammar.__init__", "geneticengine.grammar.grammar:Grammar.validate",
    "geneticengine.grammar.grammar:Grammar.register_alternative", "geneticengine.grammar.grammar:Grammar.register_type",
    "geneticengine.grammar.grammar:Grammar.preprocess", "geneticengine.grammar.grammar:Grammar.update_weights",
    "geneticengine.grammar.grammar:extract_grammar", "geneticengine.grammar.grammar:Grammar.usable_grammar",
}
CONSTRUCTORS = {"register_type", "register_alternative", "preprocess", "update_weights"}
OBSERVED = ("alternatives", "distanceToTerminal", "recursive_prods", "all_nodes", "terminals", "non_terminals")


_CLOSURE: set[str] = set()


def construction_closure(ctx: Ctx) -> set[str]:
    """the named construction entry points plus every function of the grammar package all of whose (resolved) callers are
    already in the set: helpers extracted from preprocess / register_type stay part of construction"""
    prog, res = ctx.prog, ctx.res
    callers: dict[str, set[str]] = {}
    for f in prog.functions.values():
        top = f
        while top.parent is not None:
            top = top.parent
        for c in res.calls_in(f, include_nested=False):
            t = res.resolve(f, c)
            if t.kind == "repo":
                for g in t.targets:
                    callers.setdefault(g.fullname, set()).add(top.fullname)
        # a method taken as a value (relax = self._relax_abstract if .. else self._relax_concrete; relax(..)) is called by whoever took it
        if f.cls is not None:
            from ..astutil import is_self_attr as _isa
            from ..frontend import parent as _parent
            for x in walk_local(f.node, include_nested=True):
                if isinstance(x, ast.Attribute) and _isa(x) and isinstance(x.ctx, ast.Load) and not (isinstance(_parent(x), ast.Call) and _parent(x).func is x):
                    g = prog.lookup_method(f.cls, x.attr)
                    if g is not None:
                        callers.setdefault(g.fullname, set()).add(top.fullname)
    closure = set(CONSTRUCTION)
    changed = True
    while changed:
        changed = False
        for g in prog.functions.values():
            if g.fullname in closure or g.parent is not None or not g.module.name.startswith("geneticengine.grammar"):
                continue
            cs = callers.get(g.fullname, set()) - {g.fullname}
            if cs and cs <= closure:
                closure.add(g.fullname)
                changed = True
    return closure


def in_construction(f: FunctionInfo) -> bool:
    g: Optional[FunctionInfo] = f
    while g is not None:
        if g.fullname in CONSTRUCTION or g.fullname in _CLOSURE:
            return True
        g = g.parent
    return False


def run(ctx: Ctx) -> None:
    prog, res, types = ctx.prog, ctx.res, ctx.types
    ctx.rule("C10.R1", "no mutating operation on a Grammar-owned value outside the construction set (interprocedural)")
    ctx.rule("C10.R2", "grammar construction / weight rewriting only from the construction set")
    ctx.rule("C10.R3", "observable grammar tables are not auto-vivifying, or reads are membership-guarded")
    ctx.rule("C10.R4", "refinement objects (part of the grammar's types) are not modified by their own methods, directly or through a callee")
    gcls = prog.get_class(GRAMMAR)
    for name in CONSTRUCTION:
        if name not in prog.functions:
            raise AnalysisError(f"C10: construction-set anchor {name} missing")
    _CLOSURE.clear()
    _CLOSURE.update(construction_closure(ctx))
    ctx.extra["construction_set"] = sorted(_CLOSURE)

    def is_grammar(fn: FunctionInfo, e: ast.AST) -> bool:
        if isinstance(e, ast.Name) and e.id == "self":
            c = res.enclosing_class(fn)
            return c is not None and prog.is_subclass(c, GRAMMAR)
        t = types.of(fn.module, e)
        return any(i.fn == GRAMMAR for i in t.instances())

    ma = MutationAnalysis(prog, res, depth=6 if ctx.tier == "thorough" else 4)
    # fields that hold a part of the grammar: 'self.X = <alias of a grammar-owned value>' (a table kept "for speed") makes self.X the grammar's own
    # object in every method of the class; taken only when every store to that field in the class is such an alias (a field that is sometimes a
    # copy is left to the local analysis)
    from ..mutation import INF as _INF
    from ..astutil import is_self_attr as _isa
    field_stores: dict[tuple, list] = {}
    for f in prog.functions.values():
        if f.cls is None or f.parent is not None or in_construction(f) or prog.is_subclass(f.cls, GRAMMAR):
            continue
        for a_ in walk_local(f.node):
            if isinstance(a_, ast.Assign) and len(a_.targets) == 1 and _isa(a_.targets[0]):
                field_stores.setdefault((f.cls.fullname, a_.targets[0].attr), []).append((f, a_.value))
            elif isinstance(a_, ast.AnnAssign) and a_.value is not None and _isa(a_.target):
                field_stores.setdefault((f.cls.fullname, a_.target.attr), []).append((f, a_.value))
    alias_fields: dict[tuple, str] = {}
    for key_, lst_ in sorted(field_stores.items()):
        if not any(isinstance(x_, (ast.Name, ast.Attribute)) and is_grammar(f_, x_) for f_, rhs_ in lst_ for x_ in ast.walk(rhs_)):
            continue
        depths = []
        for f_, rhs_ in lst_:
            if isinstance(rhs_, (ast.Name, ast.Attribute)) and is_grammar(f_, rhs_):
                depths.append(None)       # the grammar itself: already a root by its type
                continue
            ma.probes.pop(id(rhs_), None)
            ma.analyse(f_, {}, is_grammar, probes=[rhs_])
            depths.append(ma.probes.get(id(rhs_), _INF))
        if depths and all(d_ == 0 for d_ in depths):
            alias_fields[key_] = f"{lst_[0][0].qualname}: self.{key_[1]} = {norm(lst_[0][1])[:50]}"
    ctx.extra["fields_aliasing_grammar_parts"] = {f"{k_[0]}.{k_[1]}": v_ for k_, v_ in alias_fields.items()}

    def is_owned(fn: FunctionInfo, e: ast.AST) -> bool:
        if is_grammar(fn, e):
            return True
        if alias_fields and isinstance(e, ast.Attribute) and _isa(e) and fn.cls is not None:
            return any((k_.fullname, e.attr) in alias_fields for k_ in prog.mro(fn.cls))
        return False

    n_fn = n_roots = 0
    for f in sorted(prog.functions.values(), key=lambda x: x.fullname):
        if in_construction(f) or f.parent is not None:
            continue
        # does the function see a grammar at all?
        sees = [e for e in walk_local(f.node, include_nested=True) if isinstance(e, (ast.Name, ast.Attribute)) and is_owned(f, e)]
        if not sees:
            continue
        n_fn += 1
        n_roots += len(sees)
        muts = ma.analyse(f, {}, is_owned)
        if not muts:
            ctx.ob("C10.R1", f, f.node, "no mutation of a Grammar-owned value", True, f"{len(sees)} grammar-typed expressions inspected")
        for m in muts:
            ctx.ob("C10.R1", f, m.node, f"{m.how} on {m.what}"[:120], False,
                   f"'{norm(m.node)[:80]}' modifies a container owned by the grammar ({m.what}): the set of programs "
                   f"creatable from the grammar changes for the rest of the process"
                   + (f" [via {' -> '.join(m.chain)}]" if m.chain else ""))
    ctx.floor("C10.R1", n_fn, 25, "functions outside the construction set that handle a Grammar")
    ctx.extra["grammar_typed_expressions"] = n_roots
    ctx.extra["unresolved_calls_with_grammar_owned_args"] = [f"{f.loc(c)} {norm(c)[:60]}" for f, c in ma.unresolved[:20]]

    # ---- R2 who may construct
    n2 = 0
    for f in prog.functions.values():
        for c in res.calls_in(f, include_nested=False):
            nm = call_name(c)
            if nm in CONSTRUCTORS and isinstance(c.func, ast.Attribute):
                t = res.resolve(f, c)
                if t.kind == "repo" and any(g.cls is not None and prog.is_subclass(g.cls, GRAMMAR) for g in t.targets):
                    n2 += 1
                    ok = in_construction(f)
                    ctx.ob("C10.R2", f, c, f"caller of Grammar.{nm}", ok,
                           "" if ok else f"Grammar.{nm} is called during synthesis/search: the grammar is rebuilt or extended after extraction")
    # stores to production weights
    from .common import weight_store_sites, weight_writers
    for f in prog.functions.values():
        for n in weight_store_sites(f):
            n2 += 1
            ok = f.fullname in weight_writers(prog)
            ctx.ob("C10.R2", f, n, "store to a production weight", ok,
                   "" if ok else f"'{norm(n)[:60]}' writes a production weight outside the weight decorator / update_weights: reading a weight must not "
                                 f"declare one (an unweighted grammar becomes a weighted one, and the next extraction renormalises it)")
    ctx.floor("C10.R2", n2, 6, "construction calls and weight stores")

    # ---- R4 refinement objects are part of the grammar: their state is read-only after construction
    from .common import METAHANDLER
    n4 = 0
    for cfn, c in sorted(prog.classes.items()):
        if not prog.is_subclass(c, METAHANDLER):
            continue
        for mname, m in sorted(c.methods.items()):
            if mname in ("__init__", "__class_getitem__", "__post_init__") or not m.params or m.params[0] != "self":
                continue
            n4 += 1
            muts = ma.analyse(m, {"self": 0})
            if not muts:
                ctx.ob("C10.R4", m, m.node, "no mutation of the refinement's own state", True, "")
            for mu in muts:
                ctx.ob("C10.R4", m, mu.node, f"{mu.how} on {mu.what}"[:120], False,
                       f"'{norm(mu.node)[:80]}' modifies state of a refinement object ({mu.what}); the object is part of the "
                       f"grammar's annotated types, so what the grammar can produce changes for the rest of the process"
                       + (f" [via {' -> '.join(mu.chain)}]" if mu.chain else ""))
    ctx.floor("C10.R4", n4, 25, "methods of refinement classes analysed")

    # ---- R3 auto-vivifying tables
    init = prog.get_function("geneticengine.grammar.grammar:Grammar.__init__")
    auto: dict[str, ast.AST] = {}
    for a in walk_local(init.node):
        if isinstance(a, (ast.Assign, ast.AnnAssign)):
            t = a.targets[0] if isinstance(a, ast.Assign) else a.target
            if is_self_attr(t) and a.value is not None and isinstance(a.value, ast.Call) and call_name(a.value) == "defaultdict":
                auto[t.attr] = a
    for name in OBSERVED:
        if name not in auto:
            ctx.ob("C10.R3", init, init.node, f"Grammar.{name} is a plain container", True, "")
            continue
        # every subscript read outside construction must be guarded by a membership test on the same container
        bad = []
        for f in prog.functions.values():
            if in_construction(f):
                continue
            for s in walk_local(f.node):
                if isinstance(s, ast.Subscript) and isinstance(s.ctx, ast.Load) and isinstance(s.value, ast.Attribute) \
                        and s.value.attr == name and is_grammar(f, s.value.value):
                    key = norm(s.slice)
                    ok = any(isinstance(t, ast.Compare) and isinstance(t.ops[0], ast.In) and pol and norm(t.left) == key
                             and isinstance(t.comparators[0], ast.Attribute) and t.comparators[0].attr == name
                             for t, pol in guards(s, stop=f.node))
                    if not ok:
                        # key taken from an iteration over the same table (for k in g.alternatives / .keys()): present
                        from ..frontend import ancestors
                        for a in ancestors(s):
                            gens = []
                            if isinstance(a, (ast.For, ast.AsyncFor)):
                                gens = [(a.target, a.iter)]
                            elif isinstance(a, (ast.ListComp, ast.SetComp, ast.DictComp, ast.GeneratorExp)):
                                gens = [(g_.target, g_.iter) for g_ in a.generators]
                            for tg_, it_ in gens:
                                if isinstance(it_, ast.Call) and call_name(it_) == "keys" and isinstance(it_.func, ast.Attribute):
                                    it_ = it_.func.value
                                if isinstance(tg_, ast.Name) and tg_.id == key and isinstance(it_, ast.Attribute) and it_.attr == name:
                                    ok = True
                    if not ok:
                        bad.append((f, s))
        if not bad:
            ctx.ob("C10.R3", init, auto[name], f"Grammar.{name} is auto-vivifying but every read is guarded", True, "")
        for f, s in bad:
            ctx.ob("C10.R3", f, s, f"unguarded read of auto-vivifying Grammar.{name}", False,
                   f"Grammar.{name} is a defaultdict: the read '{norm(s)}' inserts a key when it is missing, so mapping / "
                   f"creation alters the grammar's {name} table")
