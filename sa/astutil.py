"""Small syntactic helpers shared by the rule modules."""
from __future__ import annotations

import ast
import itertools
from typing import Callable, Iterator, Optional

from .frontend import ancestors, dotted, parent, walk_local

LOOPS = (ast.For, ast.AsyncFor, ast.While)
COMPS = (ast.ListComp, ast.SetComp, ast.DictComp, ast.GeneratorExp)
FUNCS = (ast.FunctionDef, ast.AsyncFunctionDef, ast.Lambda)


def is_self_attr(node: ast.AST, attr: Optional[str] = None, selfname: str = "self") -> bool:
    return (
        isinstance(node, ast.Attribute)
        and isinstance(node.value, ast.Name)
        and node.value.id == selfname
        and (attr is None or node.attr == attr)
    )


def call_name(call: ast.Call) -> str:
    """Last component of the callee (method or function name), '' if not a name."""
    f = call.func
    if isinstance(f, ast.Attribute):
        return f.attr
    if isinstance(f, ast.Name):
        return f.id
    return ""


def names_read(node: ast.AST) -> set[str]:
    return {n.id for n in ast.walk(node) if isinstance(n, ast.Name) and isinstance(n.ctx, ast.Load)}


def target_names(t: ast.AST) -> set[str]:
    return {n.id for n in ast.walk(t) if isinstance(n, ast.Name) and isinstance(n.ctx, (ast.Store, ast.Del))}


def block_of(stmt: ast.stmt) -> tuple[list[ast.stmt], int]:
    """The statement list containing *stmt* and its index."""
    p = parent(stmt)
    for fld in ("body", "orelse", "finalbody"):
        b = getattr(p, fld, None)
        if isinstance(b, list) and stmt in b:
            return b, b.index(stmt)
    if isinstance(p, ast.ExceptHandler) and stmt in p.body:
        return p.body, p.body.index(stmt)
    if hasattr(ast, "match_case") and isinstance(p, ast.match_case) and stmt in p.body:
        return p.body, p.body.index(stmt)
    raise ValueError("statement not in a block")


def guards(node: ast.AST, stop: Optional[ast.AST] = None) -> list[tuple[ast.expr, bool]]:
    """(test, polarity) for every condition under which *node* executes, between *node* and *stop* (innermost first):
    enclosing if/while/ifexp branches, the earlier operands of a short-circuit and/or, and guard clauses - earlier
    statements 'if T: <cannot fall through>' of an enclosing block contribute (T, False)."""
    out = []
    child = node
    for a in ancestors(node):
        if a is stop:
            _sibling_guards(a, child, out)
            break
        if isinstance(a, (ast.If, ast.While)):
            if child in a.body:
                out.append((a.test, True))
            elif child in a.orelse:
                out.append((a.test, False))
        elif isinstance(a, ast.IfExp):
            if child is a.body:
                out.append((a.test, True))
            elif child is a.orelse:
                out.append((a.test, False))
        elif isinstance(a, ast.BoolOp) and child in a.values:
            for v in a.values[:a.values.index(child)]:
                out.append((v, isinstance(a.op, ast.And)))
        _sibling_guards(a, child, out)
        if isinstance(a, FUNCS):
            break
        child = a
    return out


def _sibling_guards(a: ast.AST, child: ast.AST, out: list) -> None:
    """guard clauses among the earlier siblings of *child* in a statement block of *a*"""
    for fld in ("body", "orelse", "finalbody"):
        blk = getattr(a, fld, None)
        if isinstance(blk, list) and child in blk:
            for st in blk[:blk.index(child)]:
                if isinstance(st, ast.If) and not st.orelse and not may_fall_through(st.body):
                    out.append((st.test, False))
                elif isinstance(st, ast.If) and st.orelse and not may_fall_through(st.orelse) and may_fall_through(st.body):
                    out.append((st.test, True))


def atomic_guards(node: ast.AST, stop: Optional[ast.AST] = None) -> list[tuple[ast.expr, bool]]:
    """guards() decomposed into atoms: (A and B, True) -> A, B true; (A or B, False) -> A, B false; not X flips"""
    out: list[tuple[ast.expr, bool]] = []

    def rec(t: ast.expr, pol: bool) -> None:
        if isinstance(t, ast.UnaryOp) and isinstance(t.op, ast.Not):
            rec(t.operand, not pol)
        elif isinstance(t, ast.BoolOp) and ((isinstance(t.op, ast.And) and pol) or (isinstance(t.op, ast.Or) and not pol)):
            for v in t.values:
                rec(v, pol)
        elif isinstance(t, ast.Compare) and len(t.ops) == 1 and not pol and isinstance(t.ops[0], (ast.NotIn, ast.In, ast.IsNot, ast.Is, ast.NotEq, ast.Eq)):
            flip = {ast.NotIn: ast.In, ast.In: ast.NotIn, ast.IsNot: ast.Is, ast.Is: ast.IsNot, ast.NotEq: ast.Eq, ast.Eq: ast.NotEq}
            out.append((ast.copy_location(ast.Compare(left=t.left, ops=[flip[type(t.ops[0])]()], comparators=t.comparators), t), True))
        else:
            out.append((t, pol))

    for t, pol in guards(node, stop):
        rec(t, pol)
    return out


def may_fall_through(stmts: list[ast.stmt]) -> bool:
    """Can control reach the end of this statement list? (conservative: True unless surely not)"""
    for st in stmts:
        if isinstance(st, (ast.Return, ast.Raise, ast.Continue, ast.Break)):
            return False
        if isinstance(st, ast.If) and st.orelse:
            if not may_fall_through(st.body) and not may_fall_through(st.orelse):
                return False
        if isinstance(st, ast.Assert) and isinstance(st.test, ast.Constant) and st.test.value is False:
            return False
    return True


def enclosing_loops(node: ast.AST, stop: Optional[ast.AST] = None) -> list[ast.AST]:
    """Loops and comprehensions enclosing *node* (innermost first), not crossing *stop*."""
    out = []
    child = node
    for a in ancestors(node):
        if a is stop:
            break
        if isinstance(a, LOOPS) and (child in a.body):
            out.append(a)
        elif isinstance(a, COMPS):
            # the first generator's iterable is evaluated outside the comprehension
            if not (a.generators and child is a.generators[0] and False):
                out.append(a)
        child = a
    return out


def loop_vars(loop: ast.AST) -> set[str]:
    if isinstance(loop, (ast.For, ast.AsyncFor)):
        return target_names(loop.target)
    if isinstance(loop, COMPS):
        s: set[str] = set()
        for g in loop.generators:
            s |= target_names(g.target)
        return s
    return set()


def free_names(fn: ast.AST) -> set[str]:
    """Names read in a lambda/def body that are not its parameters or locally bound (incl. nested comps)."""
    a = fn.args
    params = {x.arg for x in a.posonlyargs + a.args + a.kwonlyargs}
    if a.vararg:
        params.add(a.vararg.arg)
    if a.kwarg:
        params.add(a.kwarg.arg)
    body = fn.body if isinstance(fn.body, list) else [fn.body]
    bound = set(params)
    reads: set[str] = set()
    for st in body:
        for n in ast.walk(st):
            if isinstance(n, ast.Name):
                if isinstance(n.ctx, ast.Store):
                    bound.add(n.id)
                else:
                    reads.add(n.id)
            elif isinstance(n, (ast.FunctionDef, ast.AsyncFunctionDef)):
                bound.add(n.name)
    return reads - bound


def truth_table(expr: ast.expr, atoms: dict[str, Callable[[ast.expr], bool]]) -> Optional[dict[tuple, bool]]:
    """Evaluate a boolean combination of named atoms under every assignment.

    *atoms* maps an atom name to a recogniser of the AST that denotes it.  Returns None when the
    expression contains anything else (the instance is then undecided, never guessed)."""
    names = sorted(atoms)

    def ev(e: ast.expr, env: dict[str, bool]) -> Optional[bool]:
        for nm in names:
            if atoms[nm](e):
                return env[nm]
        if isinstance(e, ast.UnaryOp) and isinstance(e.op, ast.Not):
            v = ev(e.operand, env)
            return None if v is None else (not v)
        if isinstance(e, ast.BoolOp):
            vs = [ev(v, env) for v in e.values]
            if any(v is None for v in vs):
                return None
            return all(vs) if isinstance(e.op, ast.And) else any(vs)
        if isinstance(e, ast.Constant) and isinstance(e.value, bool):
            return e.value
        if isinstance(e, ast.Compare) and len(e.ops) == 1 and isinstance(e.ops[0], (ast.Is, ast.Eq, ast.IsNot, ast.NotEq)):
            l, r = e.left, e.comparators[0]
            if isinstance(r, ast.Constant) and isinstance(r.value, bool):
                v = ev(l, env)
                if v is None:
                    return None
                res = v == r.value
                return res if isinstance(e.ops[0], (ast.Is, ast.Eq)) else not res
        return None

    table = {}
    for vals in itertools.product([False, True], repeat=len(names)):
        env = dict(zip(names, vals))
        r = ev(expr, env)
        if r is None:
            return None
        table[vals] = r
    return table


def stmts_after(stmt: ast.stmt) -> list[ast.stmt]:
    b, i = block_of(stmt)
    return b[i + 1:]


def find_calls(root: ast.AST, pred: Callable[[ast.Call], bool], nested: bool = True) -> list[ast.Call]:
    it = ast.walk(root) if nested else walk_local(root)
    return [n for n in it if isinstance(n, ast.Call) and pred(n)]


def const_str(node: ast.AST) -> Optional[str]:
    return node.value if isinstance(node, ast.Constant) and isinstance(node.value, str) else None


def same_expr(a: ast.AST, b: ast.AST) -> bool:
    return ast.dump(a) == ast.dump(b)
