"""E1: type-form dispatch tables.

A *dispatcher* is an if/elif chain that applies type-form predicates (``is_generic_list``, ``is_generic_tuple``,
``is_metahandler``/``is_annotated``, ``is_union``, ``is_generic``, ``is_abstract``, identity tests against
``int/float/bool/str``, membership in ``grammar.alternatives``) to one variable.  This module extracts the
ordered table (form, test, body) from such a chain so that rules can reason about coverage, order and
what each branch does with the unwrapped type.
"""
from __future__ import annotations

import ast
from dataclasses import dataclass
from typing import Optional

from .astutil import call_name
from .frontend import FunctionInfo, dotted, walk_local

PRED_FORMS = {
    "is_generic_tuple": "tuple",
    "is_generic_list": "list",
    "is_metahandler": "annotated",
    "is_annotated": "annotated",
    "is_union": "union",
    "is_generic": "generic",
    "is_abstract": "abstract",
    "is_dataclass": "concrete",
}
BASE = {"int", "float", "bool", "str"}


@dataclass
class Branch:
    form: str            # 'int' 'float' 'bool' 'str' 'tuple' 'list' 'annotated' 'union' 'generic' 'abstract'
    #                      'bare-tuple' 'bare-list' 'alternatives' 'registered' 'other' 'else'
    test: Optional[ast.expr]
    body: list[ast.stmt]
    negated: bool = False


def classify(test: ast.expr) -> tuple[str, Optional[str], bool]:
    """(form, variable name, negated)"""
    neg = False
    t = test
    while isinstance(t, ast.UnaryOp) and isinstance(t.op, ast.Not):
        neg, t = not neg, t.operand
    if isinstance(t, ast.Call) and call_name(t) in PRED_FORMS and t.args and isinstance(t.args[0], ast.Name):
        return PRED_FORMS[call_name(t)], t.args[0].id, neg
    if isinstance(t, ast.Compare) and len(t.ops) == 1 and isinstance(t.left, ast.Name):
        op, r = t.ops[0], t.comparators[0]
        if isinstance(op, (ast.Is, ast.Eq)) and isinstance(r, ast.Name):
            if r.id in BASE:
                return r.id, t.left.id, neg
            if r.id in ("tuple", "list"):
                return f"bare-{r.id}", t.left.id, neg
        if isinstance(op, (ast.In, ast.NotIn)):
            d = dotted(r) or ""
            inn = isinstance(op, ast.NotIn)
            if d.endswith(".alternatives"):
                return "alternatives", t.left.id, neg != inn
            if d.endswith(".all_nodes"):
                return "registered", t.left.id, neg != inn
            if isinstance(r, (ast.List, ast.Tuple)) and all(isinstance(e, ast.Name) for e in r.elts):
                return "builtin-list", t.left.id, neg != inn
            return "member:" + d, t.left.id, neg != inn
    if isinstance(t, ast.BoolOp):
        # (a is int or a is float or ...) : a base-type group
        parts = [classify(v) for v in t.values]
        forms = {p[0] for p in parts}
        vars_ = {p[1] for p in parts}
        if len(vars_) == 1 and forms <= BASE:
            return "base-group", next(iter(vars_)), neg
        if isinstance(t.op, ast.Or) and len(vars_) == 1 and None not in vars_ and "other" not in forms:
            return "multi:" + "+".join(sorted(forms)), next(iter(vars_)), neg
    return "other", None, neg


def chain(node: ast.If) -> list[Branch]:
    out: list[Branch] = []
    cur: Optional[ast.If] = node
    while cur is not None:
        form, var, neg = classify(cur.test)
        out.append(Branch(form, cur.test, cur.body, neg))
        if len(cur.orelse) == 1 and isinstance(cur.orelse[0], ast.If):
            cur = cur.orelse[0]
        else:
            if cur.orelse:
                out.append(Branch("else", None, cur.orelse))
            cur = None
    return out


def dispatch_chains(fn: FunctionInfo, min_forms: int = 3) -> list[tuple[str, list[Branch]]]:
    """(variable, branches) for every if/elif chain in fn applying >= min_forms type-form predicates to one variable."""
    res = []
    seen: set[int] = set()
    for n in walk_local(fn.node, include_nested=True):
        if isinstance(n, ast.If) and id(n) not in seen:
            br = chain(n)
            c: Optional[ast.If] = n
            while c is not None:
                seen.add(id(c))
                c = c.orelse[0] if len(c.orelse) == 1 and isinstance(c.orelse[0], ast.If) else None
            by_var: dict[str, int] = {}
            for b in br:
                if b.test is not None:
                    f, v, _ = classify(b.test)
                    if v and f != "other":
                        by_var[v] = by_var.get(v, 0) + 1
            if by_var:
                v, k = max(by_var.items(), key=lambda kv: kv[1])
                if k >= min_forms:
                    res.append((v, br))
    return res
