"""Entry point:  python -m sa.main C07 [--tier quick|thorough] [--repo PATH]"""
from __future__ import annotations

import argparse
import importlib
import os
import sys
import traceback


def main(argv=None) -> int:
    ap = argparse.ArgumentParser()
    ap.add_argument("pid")
    ap.add_argument("--tier", default=os.environ.get("VERIF_TIER", "quick"), choices=["quick", "thorough"])
    ap.add_argument("--repo", default=os.environ.get("VERIF_REPO", "/repo"))
    ap.add_argument("--no-selftest", action="store_true")
    a = ap.parse_args(argv)
    pid = a.pid.upper()
    seed = int(os.environ.get("VERIF_SEED", "0") or 0)
    from .frontend import AnalysisError
    from .report import Ctx, finish

    try:
        mod = importlib.import_module(f"sa.rules.{pid.lower()}")
        ctx = Ctx(pid, a.repo, a.tier)
        mod.run(ctx)
        if a.tier == "thorough" and not a.no_selftest and os.path.abspath(a.repo) == "/repo":
            from . import selftest

            selftest.run_battery(ctx)
        return finish(ctx, mod.LEVEL_TEXT, seed)
    except AnalysisError as e:
        print(f"ANALYSIS-ERROR: property={pid} {e}")
        return 2
    except ModuleNotFoundError as e:
        print(f"ANALYSIS-ERROR: property={pid} no rule module: {e}")
        return 2
    except Exception:
        traceback.print_exc()
        print(f"ANALYSIS-ERROR: property={pid} internal error in the analyser (see traceback)")
        return 2


if __name__ == "__main__":
    rc = main()
    sys.stdout.flush()
    sys.stderr.flush()
    os._exit(rc)
