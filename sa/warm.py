"""Setup step: parse /repo and build the mypy type table once so that the first check is warm."""
import os, sys
from .frontend import Program
from .types import TypeTable

def main() -> int:
    repo = os.environ.get("VERIF_REPO", "/repo")
    p = Program(repo)
    t = TypeTable(p)
    print(f"warm: {len(p.modules)} modules, {len(p.functions)} functions, {t.n_typed} typed expressions ({'cold' if t.cold else 'cached'})")
    return 0

if __name__ == "__main__":
    rc = main()
    sys.stdout.flush()
    os._exit(rc)
