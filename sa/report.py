"""Obligations, findings, known-findings matching, evidence, exit codes."""
from __future__ import annotations

import ast
import json
import os
import time
from dataclasses import asdict, dataclass, field
from typing import Any, Optional

from .frontend import AnalysisError, FunctionInfo, Program, norm
from .resolve import Resolver
from .types import TypeTable

VERIF = os.path.dirname(os.path.dirname(os.path.abspath(__file__)))
KNOWN_PATH = os.path.join(VERIF, "known_findings.json")
EVIDENCE_DIR = os.path.join(VERIF, "evidence")

HOLDS, VIOLATION, UNDECIDED = "holds", "violation", "undecided"


@dataclass
class Obligation:
    rule: str
    module: str
    function: str
    construct: str
    line: int
    status: str
    detail: str = ""
    witness: Any = None

    def key(self, pid: str) -> tuple:
        return (pid, self.rule, self.module, self.function, self.construct)

    def where(self) -> str:
        return f"{self.module}:{self.line} in {self.function or '<module>'}"


class Ctx:
    """Shared analysis context handed to every rule module."""

    def __init__(self, pid: str, repo: str, tier: str):
        self.pid, self.repo, self.tier = pid, repo, tier
        self.t0 = time.time()
        self.prog = Program(repo)
        self.types = TypeTable(self.prog)
        self.res = Resolver(self.prog, self.types)
        self.obligations: list[Obligation] = []
        self.notes: list[str] = []
        self.samples: list[Any] = []
        self.assumptions: list[str] = []
        self.extra: dict[str, Any] = {}
        self.rules_text: dict[str, str] = {}
        self.accepted: list[dict] = []
        self.floor_failures: list[str] = []

    # -- registering ---------------------------------------------------------
    def rule(self, rid: str, text: str) -> None:
        self.rules_text[rid] = text

    def ob(self, rule: str, fn: Optional[FunctionInfo], node: Optional[ast.AST], construct: str,
           ok: Optional[bool], detail: str = "", witness: Any = None, module: str = "") -> Obligation:
        status = HOLDS if ok is True else VIOLATION if ok is False else UNDECIDED
        o = Obligation(
            rule=rule,
            module=fn.module.relpath if fn is not None else module,
            function=fn.qualname if fn is not None else "",
            construct=construct,
            line=getattr(node, "lineno", getattr(fn.node, "lineno", 0) if fn is not None else 0),
            status=status,
            detail=detail,
            witness=witness,
        )
        self.obligations.append(o)
        return o

    def floor(self, rule: str, found: int, minimum: int, what: str) -> None:
        """Instance-count floor confirmed by hand on the pinned tree.  A shortfall means the rule's matcher no longer
        finds its instances (a vacuous pass in waiting): it is reported at the end as an analysis error - unless the
        run has definite violations to report, which take precedence."""
        if found < minimum:
            self.floor_failures.append(f"{rule}: only {found} {what} found (< floor {minimum} confirmed on the pinned tree)")

    def fn(self, fullname: str) -> FunctionInfo:
        return self.prog.get_function(fullname)

    def sample(self, s: Any) -> None:
        if len(self.samples) < 12:
            self.samples.append(s)

    def accept(self, rule: str, where: str, reason: str) -> None:
        self.accepted.append({"rule": rule, "where": where, "reason": reason})


def load_known() -> list[dict]:
    if not os.path.exists(KNOWN_PATH):
        return []
    with open(KNOWN_PATH) as fh:
        data = json.load(fh)
    return data.get("findings", [])


def _matches(entry: dict, pid: str, o: Obligation) -> bool:
    return (
        entry.get("status") == "known"
        and entry.get("property") == pid
        and entry.get("rule") == o.rule
        and entry.get("construct") == o.construct
        # entries for findings of interpreted models name the failing model instance in the construct; they stay the same
        # finding when the code is moved to another function / module ("anywhere")
        and (entry.get("anywhere") is True or (entry.get("module") == o.module and entry.get("function") == o.function))
    )


def finish(ctx: Ctx, level_text: str, seed: int = 0) -> int:
    """Print the report, write evidence, return the exit code."""
    pid = ctx.pid
    known = load_known()
    obs = ctx.obligations
    undecided = [o for o in obs if o.status == UNDECIDED]
    viols, seen_keys = [], set()
    for o in obs:
        if o.status == VIOLATION and o.key(pid) not in seen_keys:
            seen_keys.add(o.key(pid))
            viols.append(o)
    known_hits, new = [], []
    for o in viols:
        e = next((e for e in known if _matches(e, pid, o)), None)
        (known_hits if e else new).append((o, e))
    if ctx.floor_failures and not new:
        raise AnalysisError("; ".join(ctx.floor_failures))
    for ff in ctx.floor_failures:
        print(f"  floor: {ff}")
    if undecided and not new:
        # nothing definite to report and some instance could not be classified: fail closed, never a silent pass
        lines = "; ".join(f"{o.rule} {o.where()} [{o.construct}] {o.detail}" for o in undecided[:5])
        raise AnalysisError(f"{len(undecided)} obligation(s) undecided (analysis cannot classify the construct): {lines}")
    for o in undecided:
        print(f"  undecided: {o.rule} {o.where()} [{o.construct}] {o.detail}")
    by_rule: dict[str, dict[str, int]] = {}
    for o in obs:
        d = by_rule.setdefault(o.rule, {"obligations": 0, "discharged": 0, "violations": 0})
        d["obligations"] += 1
        d["discharged"] += o.status == HOLDS
        d["violations"] += o.status == VIOLATION
    print(f"[{pid}] tier={ctx.tier} repo={ctx.repo} modules={len(ctx.prog.modules)} "
          f"functions={len(ctx.prog.functions)} classes={len(ctx.prog.classes)} "
          f"typed_exprs={ctx.types.n_typed} (mypy {'cold' if ctx.types.cold else 'cached'})")
    for rid in sorted(by_rule):
        d = by_rule[rid]
        print(f"  {rid}: {d['obligations']} obligations, {d['discharged']} hold, {d['violations']} fail"
              f" -- {ctx.rules_text.get(rid, '')}")
    for o, e in known_hits:
        print(f"KNOWN-FINDING: property={pid} {o.rule} {o.where()} [{o.construct}] {e.get('what', o.detail)}")
    evdir = EVIDENCE_DIR if os.path.abspath(ctx.repo) == "/repo" else os.environ.get(
        "VERIF_SCRATCH_EVIDENCE", os.path.join(os.environ.get("TMPDIR", "/tmp"), "verif-scratch-evidence"))
    os.makedirs(evdir, exist_ok=True)
    replay_dir = os.path.join(evdir, "replay")
    for i, (o, _) in enumerate(new):
        os.makedirs(replay_dir, exist_ok=True)
        rp = os.path.join(replay_dir, f"{pid}-{i}.json")
        with open(rp, "w") as fh:
            json.dump({"property": pid, **asdict(o), "rule_text": ctx.rules_text.get(o.rule, ""),
                       "rederive": f"./check {pid} --tier {ctx.tier} --repo {ctx.repo}"}, fh, indent=1, default=str)
        print(f"  finding: {o.rule} {o.where()} [{o.construct}] {o.detail}")
        if os.environ.get("VERIF_EMIT_KNOWN"):  # triage helper only: never writes the known-findings file
            print("  KNOWN-ENTRY " + json.dumps({"status": "known", "property": pid, "rule": o.rule, "module": o.module,
                                                  "function": o.function, "construct": o.construct, "what": o.detail}))
        print(f"VIOLATION property={pid} replay={rp}")
    wall = time.time() - ctx.t0
    distinct = len({o.key(pid) for o in obs})
    samples = list(ctx.samples)
    for o in obs[:: max(1, len(obs) // 6)][:6]:
        samples.append({"rule": o.rule, "where": o.where(), "construct": o.construct, "status": o.status,
                        "detail": o.detail})
    ev = {
        "property_id": pid,
        "tier": ctx.tier,
        "seed": seed,
        "level": "other",
        "coverage": {
            "explanation": level_text,
            "obligations": len(obs),
            "discharged": sum(o.status == HOLDS for o in obs),
            "evaluations": len(obs),
            "distinct_nontrivial": distinct,
            "rule": "one obligation per rule instance (rule x construct of /repo found through the class hierarchy / "
                    "call graph); distinct = distinct (rule,module,function,construct) keys; non-trivial = the rule's "
                    "matcher selected the construct (floors guard against vacuous passes)",
            "samples": samples,
            "per_rule": by_rule,
            "rules": ctx.rules_text,
            "checker_cmd": f"./check {pid} --tier {ctx.tier}",
            "trusted_base": ["CPython ast", "mypy 1.11.2 inferred expression types (facts only)",
                             "rule tables in sa/rules (allow-lists with reasons)"],
            "analysed": {"modules": len(ctx.prog.modules), "functions": len(ctx.prog.functions),
                         "classes": len(ctx.prog.classes), "typed_expressions": ctx.types.n_typed,
                         "source_digest": ctx.prog.digest[:16]},
            "unresolved_calls_seen": len(ctx.res.unresolved),
            "known_findings_matched": [{"rule": o.rule, "where": o.where(), "construct": o.construct}
                                       for o, _ in known_hits],
            "accepted_exceptions": ctx.accepted,
            "notes": ctx.notes,
            **ctx.extra,
        },
        "assumptions": ctx.assumptions,
        "wall_s": round(wall, 3),
        "violations": len(new),
    }
    with open(os.path.join(evdir, f"{pid}.json"), "w") as fh:
        json.dump(ev, fh, indent=1, default=str)
    print(f"[{pid}] obligations={len(obs)} hold={ev['coverage']['discharged']} known={len(known_hits)} "
          f"new={len(new)} wall={wall:.2f}s")
    return 1 if new else 0
