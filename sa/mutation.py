"""E3: may-mutate effect analysis with a freshness lattice.

Abstract value of an expression with respect to a set of *owned roots* (the grammar; an operator's input
genotype / individual / population):

    D  the object itself is owned by a root (the root, an attribute / element / view of it, an alias)
    E  a fresh container whose *elements* are still owned (list(x), x.copy(), [i for i in x], dict(x), slices, a+b)
    F  fresh all the way down (deepcopy, literals, constructors of new objects, comprehensions of copies)
    -  unrelated

The analysis walks a function's statements in order (branches joined by taking the more-owned value, loops
iterated twice), tracking the value of local names, and reports every *mutating operation* whose receiver is D:
subscript / attribute stores, del, augmented assignment, and calls of mutating container methods.  A D value
handed to a callee is followed interprocedurally through summaries "parameter i may be mutated" (resolved
through the class hierarchy, depth-bounded; unresolved callees are counted, never guessed).
"""
from __future__ import annotations

import ast
from dataclasses import dataclass
from typing import Callable, Optional

from .astutil import call_name
from .frontend import FunctionInfo, Program, dotted, norm, parent, walk_local
from .resolve import Resolver

INF = 9          # unrelated / fresh all the way down
D, E, F, N = 0, 1, INF, INF   # kept for readability: D = owned, E = fresh container of owned elements

MUTATING_METHODS = {"append", "extend", "insert", "remove", "pop", "clear", "sort", "reverse", "add", "discard", "update",
                    "setdefault", "popitem", "__setitem__", "__delitem__", "appendleft", "popleft",
                    "difference_update", "intersection_update", "symmetric_difference_update"}
GROWING_METHODS = {"append": 0, "add": 0, "insert": 1, "extend": None, "update": None, "appendleft": 0}
ELEMENT_METHODS = {"get", "__getitem__", "pop", "popitem"}
VIEW_METHODS = {"values", "items", "keys"}
ALIAS_METHODS = ELEMENT_METHODS | VIEW_METHODS
SHALLOW_COPY_CALLS = {"list", "dict", "set", "tuple", "sorted", "frozenset", "reversed", "enumerate", "zip", "iter", "filter",
                      "OrderedDict", "defaultdict"}


def below(d: int) -> int:
    """depth of an element / attribute of a value of depth d"""
    return INF if d >= INF else max(d - 1, 0)


def wrap(d: int) -> int:
    """depth of a fresh container holding values of depth d"""
    return INF if d >= INF else min(d + 1, INF - 1)


@dataclass
class Mutation:
    fn: FunctionInfo
    node: ast.AST
    how: str
    what: str
    chain: tuple = ()


class MutationAnalysis:
    """Freshness depth of a value with respect to the owned roots: 0 = the owned object itself (or an alias, attribute,
    element, view of it); k >= 1 = a fresh object whose parts k levels down are owned; INF = unrelated or deep-fresh.
    Mutating an expression of depth 0 is a finding."""

    def __init__(self, prog: Program, res: Resolver, depth: int = 4):
        self.prog, self.res, self.depth = prog, res, depth
        self._param_summary: dict[tuple[str, int, int], list[Mutation]] = {}
        self._busy: set[tuple[str, int, int]] = set()
        self.unresolved: list[tuple[FunctionInfo, ast.Call]] = []
        self.allow_calls: dict[str, str] = {}
        self.probes: dict[int, int] = {}   # id(expr node) -> minimal depth observed

    # ----------------------------------------------------------------------------------------------
    def analyse(self, fn: FunctionInfo, root_names: dict[str, int | str], is_root: Optional[Callable[[FunctionInfo, ast.AST], bool]] = None,
                depth: Optional[int] = None, attr_store_on_root: bool = True, probes: Optional[list[ast.AST]] = None,
                sticky: Optional[set[str]] = None) -> list[Mutation]:
        """sticky: local names that denote an owned object from their (only) definition on, whatever they are bound to
        (used to track an offspring container created inside the function)."""
        depth = self.depth if depth is None else depth
        sticky = sticky or set()
        found: list[Mutation] = []
        seen_nodes: set[int] = set()
        probe_ids = {id(p) for p in (probes or [])}

        def report(node: ast.AST, how: str, what: str, chain: tuple = ()):
            if id(node) in seen_nodes:
                return
            seen_nodes.add(id(node))
            found.append(Mutation(fn, node, how, what, chain))

        def val(e: Optional[ast.AST], st: dict[str, int]) -> int:
            r = val0(e, st)
            if e is not None and id(e) in probe_ids:
                self.probes[id(e)] = min(self.probes.get(id(e), INF), r)
            return r

        def val0(e: Optional[ast.AST], st: dict[str, int]) -> int:
            if e is None:
                return INF
            if is_root is not None and isinstance(e, (ast.Name, ast.Attribute)) and is_root(fn, e):
                return 0
            if isinstance(e, ast.Name):
                return st.get(e.id, INF)
            if isinstance(e, ast.Attribute):
                return below(val(e.value, st))
            if isinstance(e, ast.Subscript):
                v = val(e.value, st)
                if isinstance(e.slice, ast.Slice):
                    return INF if v >= INF else max(v, 1)     # shallow copy
                return below(v)
            if isinstance(e, ast.Starred):
                return val(e.value, st)
            if isinstance(e, ast.IfExp):
                return min(val(e.body, st), val(e.orelse, st))
            if isinstance(e, ast.BoolOp):
                return min(val(v_, st) for v_ in e.values)
            if isinstance(e, ast.BinOp):
                a, b = val(e.left, st), val(e.right, st)
                m = min(a, b)
                return INF if m >= INF else max(m, 1)
            if isinstance(e, (ast.List, ast.Tuple, ast.Set)):
                return wrap(min([val(x, st) for x in e.elts] or [INF]))
            if isinstance(e, ast.Dict):
                return wrap(min([val(v_, st) for v_ in e.values if v_ is not None] or [INF]))
            if isinstance(e, (ast.ListComp, ast.SetComp, ast.GeneratorExp, ast.DictComp)):
                sub = dict(st)
                for g in e.generators:
                    iv = below(val(g.iter, sub))
                    for t in ast.walk(g.target):
                        if isinstance(t, ast.Name):
                            sub[t.id] = iv
                elt = e.value if isinstance(e, ast.DictComp) else e.elt
                return wrap(val(elt, sub))
            if isinstance(e, ast.Call):
                nm = call_name(e)
                if nm == "deepcopy":
                    return INF
                if nm == "copy":
                    src = e.func.value if isinstance(e.func, ast.Attribute) and dotted(e.func.value) != "copy" else (e.args[0] if e.args else None)
                    v = val(src, st)
                    return INF if v >= INF else max(v, 1)
                if nm in SHALLOW_COPY_CALLS and isinstance(e.func, ast.Name):
                    m = min([val(a, st) for a in e.args] or [INF])
                    return INF if m >= INF else max(m, 1)
                if isinstance(e.func, ast.Attribute) and nm in ELEMENT_METHODS:
                    return below(val(e.func.value, st))
                if isinstance(e.func, ast.Attribute) and nm in VIEW_METHODS:
                    return val(e.func.value, st)
                owner = self.prog.function_containing(e) or fn
                t = self.res.resolve(owner, e)
                if t.kind == "repo":
                    r = INF
                    for g in t.targets:
                        if is_root is not None and self.returns_owned(g, is_root):
                            r = 0
                        for idx in self.returns_alias_of(g):
                            a = self._arg_for(e, g, idx)
                            if a is not None:
                                r = min(r, below(val(a, st)) if False else val(a, st))
                    return r
                if t.kind == "ctor":
                    # A new object that stores owned parts in *some* field.  The analysis is field-insensitive, so
                    # treating the whole object as 'one level above owned' would make every attribute of it look
                    # owned; owned parts are instead re-identified where they are used (is_root by type / parameters).
                    for a in list(e.args) + [k.value for k in e.keywords]:
                        val(a, st)
                    return INF
                return INF
            return INF

        def check_expr(e: ast.AST, st: dict[str, int]):
            for c in [x for x in ast.walk(e) if isinstance(x, ast.Call)]:
                nm = call_name(c)
                if isinstance(c.func, ast.Attribute):
                    rv = val(c.func.value, st)
                    if rv == 0 and nm in MUTATING_METHODS:
                        report(c, f".{nm}()", norm(c.func.value))
                        continue
                    if rv >= 1 and nm in GROWING_METHODS and isinstance(c.func.value, ast.Name):
                        # a fresh container receives values: its depth is bounded by what it now holds
                        ai = GROWING_METHODS[nm]
                        args = [c.args[ai]] if ai is not None and len(c.args) > ai else list(c.args)
                        dv = min([val(a, st) if ai is not None else below(val(a, st)) for a in args] or [INF])
                        st[c.func.value.id] = min(rv, wrap(dv))
                owner = self.prog.function_containing(c) or fn
                t = self.res.resolve(owner, c)
                args = list(c.args) + [k.value for k in c.keywords]
                recv = c.func.value if isinstance(c.func, ast.Attribute) else None
                owned = [(a, val(a, st)) for a in args]
                owned = [(a, d) for a, d in owned if d <= 1]     # the owned object, or a fresh container of owned objects
                rd = val(recv, st) if recv is not None else INF
                if rd != 0:
                    rd = INF                                     # methods of fresh objects are analysed on their own
                if not owned and rd >= INF:
                    continue
                if t.kind == "repo" and depth > 0:
                    for g in t.targets:
                        if g.fullname in self.allow_calls:
                            continue
                        for a, d in owned:
                            idx = self._param_index(c, g, a)
                            if idx is None:
                                continue
                            for m in self.param_mutations(g, idx, depth - 1, d):
                                report(c, f"passed to {g.qualname} which does {m.how}", norm(a), (g.fullname,) + m.chain)
                        if rd == 0 and g.params and g.params[0] == "self":
                            for m in self.param_mutations(g, 0, depth - 1, rd):
                                report(c, f"method {g.qualname} does {m.how} on its receiver", norm(recv), (g.fullname,) + m.chain)
                elif t.kind == "unresolved" and (any(d == 0 for _, d in owned) or rd == 0):
                    self.unresolved.append((fn, c))
                elif t.kind == "external" and nm in ("shuffle",) and any(d == 0 for _, d in owned):
                    report(c, f"{nm}() in place", norm(owned[0][0]))

        def assign_target(t: ast.AST, v: int, st: dict[str, int], node: ast.AST):
            if isinstance(t, ast.Name):
                if t.id in sticky:
                    st[t.id] = 0
                elif v < INF:
                    st[t.id] = v
                else:
                    st.pop(t.id, None)
            elif isinstance(t, (ast.Tuple, ast.List)):
                for el in t.elts:
                    assign_target(el, below(v) if v < INF else INF, st, node)
            elif isinstance(t, ast.Subscript):
                bv = val(t.value, st)
                if bv == 0:
                    report(node, "item store", norm(t.value))
                elif isinstance(t.value, ast.Name) and not isinstance(t.slice, ast.Slice):
                    st[t.value.id] = min(bv, wrap(v))
            elif isinstance(t, ast.Attribute):
                bv = val(t.value, st)
                if bv == 0 and attr_store_on_root:
                    report(node, f"attribute store .{t.attr}", norm(t.value))
                elif isinstance(t.value, ast.Name) and bv >= 1:
                    st[t.value.id] = min(bv, wrap(v))
            elif isinstance(t, ast.Starred):
                assign_target(t.value, v, st, node)

        def exec_block(stmts: list[ast.stmt], st: dict[str, int]) -> dict[str, int]:
            for s_ in stmts:
                st = exec_stmt(s_, st)
            return st

        def merge(a: dict[str, int], b: dict[str, int]) -> dict[str, int]:
            out = dict(a)
            for k, v in b.items():
                out[k] = min(out.get(k, INF), v)
            return out

        def exec_stmt(s_: ast.stmt, st: dict[str, int]) -> dict[str, int]:
            if isinstance(s_, (ast.FunctionDef, ast.AsyncFunctionDef, ast.ClassDef, ast.Import, ast.ImportFrom, ast.Pass,
                               ast.Global, ast.Nonlocal, ast.Break, ast.Continue)):
                return st
            if isinstance(s_, ast.Assign):
                check_expr(s_.value, st)
                v = val(s_.value, st)
                for t in s_.targets:
                    assign_target(t, v, st, s_)
                return st
            if isinstance(s_, ast.AnnAssign):
                if s_.value is not None:
                    check_expr(s_.value, st)
                    assign_target(s_.target, val(s_.value, st), st, s_)
                return st
            if isinstance(s_, ast.AugAssign):
                check_expr(s_.value, st)
                if isinstance(s_.target, ast.Name):
                    if st.get(s_.target.id, INF) == 0 and isinstance(s_.op, (ast.Add, ast.BitOr, ast.BitAnd, ast.Sub)) and not self._immutable(fn, s_.target, s_.value):
                        report(s_, "augmented assignment (in place for containers)", s_.target.id)
                elif isinstance(s_.target, (ast.Subscript, ast.Attribute)):
                    if val(s_.target.value, st) == 0:
                        report(s_, "augmented item/attribute store", norm(s_.target.value))
                return st
            if isinstance(s_, ast.Delete):
                for t in s_.targets:
                    if isinstance(t, (ast.Subscript, ast.Attribute)) and val(t.value, st) == 0:
                        report(s_, "del", norm(t.value))
                return st
            if isinstance(s_, ast.Expr):
                check_expr(s_.value, st)
                val(s_.value, st)
                return st
            if isinstance(s_, ast.Return):
                if s_.value is not None:
                    check_expr(s_.value, st)
                    val(s_.value, st)
                return st
            if isinstance(s_, ast.Raise):
                return st
            if isinstance(s_, ast.If):
                check_expr(s_.test, st)
                a = exec_block(s_.body, dict(st))
                b = exec_block(s_.orelse, dict(st))
                return merge(a, b)
            if isinstance(s_, (ast.For, ast.AsyncFor)):
                check_expr(s_.iter, st)
                iv = val(s_.iter, st)
                cur = dict(st)
                for _ in range(2):
                    assign_target(s_.target, below(iv) if iv < INF else INF, cur, s_) if not isinstance(s_.target, (ast.Tuple, ast.List)) \
                        else assign_target(s_.target, iv if iv >= INF else max(below(iv), 0) + 1, cur, s_)
                    cur = merge(cur, exec_block(s_.body, dict(cur)))
                return merge(cur, exec_block(s_.orelse, dict(cur))) if s_.orelse else cur
            if isinstance(s_, ast.While):
                cur = dict(st)
                for _ in range(2):
                    check_expr(s_.test, cur)
                    cur = merge(cur, exec_block(s_.body, dict(cur)))
                return cur
            if isinstance(s_, ast.Try):
                a = exec_block(s_.body, dict(st))
                out = a
                for h in s_.handlers:
                    out = merge(out, exec_block(h.body, merge(dict(st), a)))
                if s_.orelse:
                    out = merge(out, exec_block(s_.orelse, dict(a)))
                if s_.finalbody:
                    out = exec_block(s_.finalbody, out)
                return out
            if isinstance(s_, (ast.With, ast.AsyncWith)):
                for it in s_.items:
                    check_expr(it.context_expr, st)
                    if it.optional_vars is not None:
                        assign_target(it.optional_vars, val(it.context_expr, st), st, s_)
                return exec_block(s_.body, st)
            if isinstance(s_, ast.Assert):
                check_expr(s_.test, st)
                return st
            if hasattr(ast, "Match") and isinstance(s_, ast.Match):
                check_expr(s_.subject, st)
                out = dict(st)
                for c in s_.cases:
                    out = merge(out, exec_block(c.body, dict(st)))
                return out
            return st

        st0 = {k: (v if isinstance(v, int) else 0) for k, v in root_names.items()}
        exec_block(fn.node.body if isinstance(fn.node.body, list) else [], st0)
        for inner in [f for f in self.prog.functions.values() if f.parent is fn]:
            sub_roots = {k: v for k, v in root_names.items() if k not in inner.params}
            for m in self.analyse(inner, sub_roots, is_root, depth, attr_store_on_root, probes, sticky):
                found.append(Mutation(fn, m.node, m.how + f" (in nested {inner.name})", m.what, m.chain))
        return found

    # ----------------------------------------------------------------------------------------------
    def _immutable(self, fn: FunctionInfo, target: ast.AST, value: ast.AST) -> bool:
        """x += v on a number / string / tuple re-binds the name: nothing the caller holds is modified (types from mypy, or a numeric literal operand)"""
        if isinstance(value, ast.Constant) and isinstance(value.value, (int, float, str, bool)):
            return True
        try:
            for e in (target, value):
                t = self.res.types.of(fn.module, e)
                insts = t.instances() if t is not None else []
                if insts and all(i.fn in ("builtins.int", "builtins.float", "builtins.bool", "builtins.str", "builtins.tuple", "builtins.complex") for i in insts):
                    return True
        except Exception:
            pass
        return False

    def param_mutations(self, fn: FunctionInfo, idx: int, depth: int, argdepth: int = 0) -> list[Mutation]:
        key = (fn.fullname, idx, argdepth)
        if key in self._param_summary:
            return self._param_summary[key]
        if key in self._busy or idx >= len(fn.params):
            return []
        self._busy.add(key)
        try:
            r = self.analyse(fn, {fn.params[idx]: argdepth}, None, depth)
        finally:
            self._busy.discard(key)
        self._param_summary[key] = r
        return r

    def returns_owned(self, fn: FunctionInfo, is_root) -> bool:
        """Does fn return (un-copied) a value that is_root classifies as owned?  (e.g. a lookup helper handing out
        a node's cached metadata list)"""
        cache = self.__dict__.setdefault("_ret_owned", {})
        key = (fn.fullname, id(is_root))
        if key in cache:
            return cache[key]
        cache[key] = False
        rets = [r.value for r in walk_local(fn.node) if isinstance(r, ast.Return) and r.value is not None]
        if rets:
            saved = dict(self.probes)
            self.analyse(fn, {}, is_root, depth=1, probes=rets)
            cache[key] = any(self.probes.get(id(r), INF) == 0 for r in rets)
            self.probes = saved
        return cache[key]

    def returns_alias_of(self, fn: FunctionInfo) -> set[int]:
        """parameter indices whose (sub)object may be returned un-copied"""
        cache = self.__dict__.setdefault("_ret_alias", {})
        if fn.fullname in cache:
            return cache[fn.fullname]
        cache[fn.fullname] = set()
        out: set[int] = set()
        params = fn.params
        alias: dict[str, int] = {p: i for i, p in enumerate(params)}
        for n in walk_local(fn.node):
            if isinstance(n, ast.Assign) and len(n.targets) == 1 and isinstance(n.targets[0], ast.Name):
                b = _base_name(n.value)
                if b in alias:
                    alias[n.targets[0].id] = alias[b]
        for n in walk_local(fn.node):
            if isinstance(n, (ast.Return, ast.Yield)) and n.value is not None:
                for e in ([n.value] if not isinstance(n.value, ast.Tuple) else n.value.elts):
                    b = _base_name(e)
                    if b in alias:
                        out.add(alias[b])
        cache[fn.fullname] = out
        return out

    def _arg_for(self, call: ast.Call, g: FunctionInfo, idx: int) -> Optional[ast.AST]:
        params = g.params
        off = 1 if (params and params[0] in ("self", "cls") and isinstance(call.func, ast.Attribute)) else 0
        if idx == 0 and off and isinstance(call.func, ast.Attribute):
            return call.func.value
        pos = idx - off
        if 0 <= pos < len(call.args):
            return call.args[pos]
        for k in call.keywords:
            if idx < len(params) and k.arg == params[idx]:
                return k.value
        return None

    def _param_index(self, call: ast.Call, g: FunctionInfo, arg: ast.AST) -> Optional[int]:
        params = g.params
        off = 1 if (params and params[0] in ("self", "cls") and isinstance(call.func, ast.Attribute)) else 0
        if g.name == "__init__" and call_name(call) != "__init__":
            off = 1
        if arg in call.args:
            i = call.args.index(arg) + off
            return i if i < len(params) else None
        for k in call.keywords:
            if k.value is arg and k.arg in params:
                return params.index(k.arg)
        return None


def _base_name(e: ast.AST) -> Optional[str]:
    """root Name of an attribute / subscript / view chain without a copy in between"""
    while True:
        if isinstance(e, ast.Name):
            return e.id
        if isinstance(e, (ast.Attribute, ast.Subscript)):
            if isinstance(e, ast.Subscript) and isinstance(e.slice, ast.Slice):
                return None
            e = e.value
            continue
        if isinstance(e, ast.Call) and isinstance(e.func, ast.Attribute) and e.func.attr in ALIAS_METHODS:
            e = e.func.value
            continue
        return None
