"""E3: may-mutate effect analysis with a freshness lattice.

Abstract value of an expression with respect to a set of *owned roots* (the grammar; an operator's input
genotype / individual / population):

    D  the object itself is owned by a root (the root, an attribute / element / view of it, an alias)
    E  a fresh container whose *elements* are still owned (list(x), x.copy(), [i for i in x], dict(x), slices, a+b)
    F  fresh all the way down (deepcopy, literals, constructors of new objects, comprehensions of copies)
    -  unrelated

The analysis walks a function's statements in order (branches joined by taking the more-owned value, loops
iterated twice), tracking the value of local names, and reports every *mutating operation* whose receiver is D:
subscript / attribute stores, del, augmented assignment, and calls of mutating container methods.  A D value
handed to a callee is followed interprocedurally through summaries "parameter i may be mutated" (resolved
through the class hierarchy, depth-bounded; unresolved callees are counted, never guessed).
"""
from __future__ import annotations

import ast
from dataclasses import dataclass
from typing import Callable, Optional

from .astutil import call_name
from .frontend import FunctionInfo, Program, dotted, norm, parent, walk_local
from .resolve import Resolver

D, E, F, N = "D", "E", "F", "-"
ORDER = {N: 0, F: 0, E: 1, D: 2}

MUTATING_METHODS = {"append", "extend", "insert", "remove", "pop", "clear", "sort", "reverse", "add", "discard", "update",
                    "setdefault", "popitem", "__setitem__", "__delitem__", "appendleft", "popleft", "shuffle_inplace",
                    "difference_update", "intersection_update", "symmetric_difference_update"}
VIEW_METHODS = {"get", "values", "items", "keys", "__getitem__"}
SHALLOW_COPY_CALLS = {"list", "dict", "set", "tuple", "sorted", "frozenset", "reversed", "enumerate", "zip", "iter", "filter",
                      "map", "OrderedDict", "defaultdict"}
PURE_BUILTINS = {"len", "isinstance", "issubclass", "hasattr", "getattr", "id", "type", "str", "repr", "print", "sum", "max", "min",
                 "any", "all", "int", "float", "bool", "abs", "round", "range", "hash", "callable", "format", "next"}


def join(a: str, b: str) -> str:
    return a if ORDER[a] >= ORDER[b] else b


@dataclass
class Mutation:
    fn: FunctionInfo
    node: ast.AST
    how: str
    what: str
    chain: tuple = ()


class MutationAnalysis:
    def __init__(self, prog: Program, res: Resolver, depth: int = 4):
        self.prog, self.res, self.depth = prog, res, depth
        self._param_summary: dict[tuple[str, int], list[Mutation]] = {}
        self._busy: set[tuple[str, int]] = set()
        self.unresolved: list[tuple[FunctionInfo, ast.Call]] = []
        self.allow_calls: dict[str, str] = {}   # callee fullname -> reason (not followed / not reported)

    # ----------------------------------------------------------------------------------------------
    def analyse(self, fn: FunctionInfo, root_names: dict[str, str], is_root: Optional[Callable[[FunctionInfo, ast.AST], bool]] = None,
                depth: Optional[int] = None, attr_store_on_root: bool = True) -> list[Mutation]:
        """Mutations of owned objects inside fn.  root_names: local names that start as D (parameters);
        is_root(fn, expr): expressions that denote a root by type (e.g. any Grammar-typed expression)."""
        depth = self.depth if depth is None else depth
        found: list[Mutation] = []
        seen_nodes: set[int] = set()

        def report(node: ast.AST, how: str, what: str, chain: tuple = ()):
            if id(node) in seen_nodes:
                return
            seen_nodes.add(id(node))
            found.append(Mutation(fn, node, how, what, chain))

        def val(e: ast.AST, st: dict[str, str]) -> str:
            if e is None:
                return N
            if is_root is not None and isinstance(e, (ast.Name, ast.Attribute)) and is_root(fn, e):
                return D
            if isinstance(e, ast.Name):
                return st.get(e.id, N)
            if isinstance(e, ast.Attribute):
                v = val(e.value, st)
                return D if v == D else (D if v == E else N) if False else (D if v == D else N)
            if isinstance(e, ast.Subscript):
                v = val(e.value, st)
                if isinstance(e.slice, ast.Slice):
                    return E if v in (D, E) else v
                return D if v in (D, E) else N
            if isinstance(e, ast.Starred):
                return val(e.value, st)
            if isinstance(e, ast.IfExp):
                return join(val(e.body, st), val(e.orelse, st))
            if isinstance(e, ast.BoolOp):
                r = N
                for v_ in e.values:
                    r = join(r, val(v_, st))
                return r
            if isinstance(e, ast.BinOp):
                a, b = val(e.left, st), val(e.right, st)
                return E if D in (a, b) or E in (a, b) else N
            if isinstance(e, (ast.List, ast.Tuple, ast.Set)):
                r = N
                for x in e.elts:
                    if val(x, st) in (D, E):
                        r = E
                return r
            if isinstance(e, ast.Dict):
                return E if any(val(v_, st) in (D, E) for v_ in e.values if v_ is not None) else N
            if isinstance(e, (ast.ListComp, ast.SetComp, ast.GeneratorExp, ast.DictComp)):
                sub = dict(st)
                for g in e.generators:
                    iv = val(g.iter, sub)
                    for t in ast.walk(g.target):
                        if isinstance(t, ast.Name):
                            sub[t.id] = D if iv in (D, E) else N
                elts = [e.key, e.value] if isinstance(e, ast.DictComp) else [e.elt]
                return E if any(val(x, sub) in (D, E) for x in elts) else N
            if isinstance(e, ast.Call):
                nm = call_name(e)
                if nm in ("deepcopy",):
                    return F
                if nm == "copy" and isinstance(e.func, ast.Attribute):
                    v = val(e.func.value, st)
                    if dotted(e.func.value) == "copy" and e.args:     # copy.copy(x)
                        v = val(e.args[0], st)
                    return E if v in (D, E) else N
                if nm == "copy" and e.args:
                    return E if val(e.args[0], st) in (D, E) else N
                if nm in SHALLOW_COPY_CALLS and isinstance(e.func, ast.Name):
                    r = N
                    for a in e.args:
                        if val(a, st) in (D, E):
                            r = E
                    return r
                if isinstance(e.func, ast.Attribute) and nm in VIEW_METHODS:
                    v = val(e.func.value, st)
                    return D if v in (D, E) else N
                if isinstance(e.func, ast.Attribute) and nm in ("pop", "popitem") and val(e.func.value, st) in (D, E):
                    return D
                # repo callee returning an alias of an argument
                owner = self.prog.function_containing(e) or fn
                t = self.res.resolve(owner, e)
                if t.kind == "repo":
                    r = N
                    for g in t.targets:
                        for idx in self.returns_alias_of(g):
                            a = self._arg_for(e, g, idx)
                            if a is not None and val(a, st) in (D, E):
                                r = join(r, D)
                    return r
                if t.kind == "ctor":
                    # a new object holding owned parts: fresh container level
                    return E if any(val(a, st) in (D, E) for a in list(e.args) + [k.value for k in e.keywords]) else N
                return N
            return N

        def check_expr(e: ast.AST, st: dict[str, str]):
            """mutating calls inside an expression"""
            for c in [x for x in ast.walk(e) if isinstance(x, ast.Call)]:
                nm = call_name(c)
                if isinstance(c.func, ast.Attribute):
                    rv = val(c.func.value, st)
                    if rv == D and nm in MUTATING_METHODS:
                        report(c, f".{nm}()", norm(c.func.value))
                        continue
                owner = self.prog.function_containing(c) or fn
                t = self.res.resolve(owner, c)
                args = list(c.args) + [k.value for k in c.keywords]
                recv = c.func.value if isinstance(c.func, ast.Attribute) else None
                dargs = [a for a in args if val(a, st) == D]
                recv_d = recv is not None and val(recv, st) == D
                if not dargs and not recv_d:
                    continue
                if t.kind == "repo" and depth > 0:
                    for g in t.targets:
                        if g.fullname in self.allow_calls:
                            continue
                        for a in dargs:
                            idx = self._param_index(c, g, a)
                            if idx is None:
                                continue
                            for m in self.param_mutations(g, idx, depth - 1):
                                report(c, f"passed to {g.qualname} which does {m.how}", norm(a), (g.fullname,) + m.chain)
                        if recv_d and g.params and g.params[0] == "self":
                            for m in self.param_mutations(g, 0, depth - 1):
                                report(c, f"method {g.qualname} does {m.how} on its receiver", norm(recv), (g.fullname,) + m.chain)
                elif t.kind in ("unresolved",) and (dargs or recv_d):
                    self.unresolved.append((fn, c))
                elif t.kind == "external" and nm in ("shuffle", "sort") and dargs:
                    report(c, f"{nm}() in place", norm(dargs[0]))

        def assign_target(t: ast.AST, v: str, st: dict[str, str], node: ast.AST):
            if isinstance(t, ast.Name):
                if v in (D, E):
                    st[t.id] = v
                else:
                    st.pop(t.id, None)
            elif isinstance(t, (ast.Tuple, ast.List)):
                for el in t.elts:
                    assign_target(el, D if v in (D, E) else N, st, node)
            elif isinstance(t, ast.Subscript):
                if val(t.value, st) == D:
                    report(node, "item store", norm(t.value))
            elif isinstance(t, ast.Attribute):
                bv = val(t.value, st)
                if bv == D and attr_store_on_root:
                    report(node, f"attribute store .{t.attr}", norm(t.value))
            elif isinstance(t, ast.Starred):
                assign_target(t.value, v, st, node)

        def exec_block(stmts: list[ast.stmt], st: dict[str, str]) -> dict[str, str]:
            for s in stmts:
                st = exec_stmt(s, st)
            return st

        def merge(a: dict[str, str], b: dict[str, str]) -> dict[str, str]:
            out = dict(a)
            for k, v in b.items():
                out[k] = join(out.get(k, N), v)
            return out

        def exec_stmt(s: ast.stmt, st: dict[str, str]) -> dict[str, str]:
            if isinstance(s, (ast.FunctionDef, ast.AsyncFunctionDef, ast.ClassDef, ast.Import, ast.ImportFrom, ast.Pass,
                              ast.Global, ast.Nonlocal, ast.Break, ast.Continue)):
                return st
            if isinstance(s, ast.Assign):
                check_expr(s.value, st)
                v = val(s.value, st)
                for t in s.targets:
                    assign_target(t, v, st, s)
                return st
            if isinstance(s, ast.AnnAssign):
                if s.value is not None:
                    check_expr(s.value, st)
                    assign_target(s.target, val(s.value, st), st, s)
                return st
            if isinstance(s, ast.AugAssign):
                check_expr(s.value, st)
                tv = val(s.target, st) if not isinstance(s.target, ast.Name) else st.get(s.target.id, N)
                if isinstance(s.target, ast.Name):
                    if tv == D and isinstance(s.op, (ast.Add, ast.BitOr, ast.BitAnd, ast.Sub)):
                        report(s, "augmented assignment (in place for containers)", s.target.id)
                elif isinstance(s.target, (ast.Subscript, ast.Attribute)):
                    if val(s.target.value, st) == D:
                        report(s, "augmented item/attribute store", norm(s.target.value))
                return st
            if isinstance(s, ast.Delete):
                for t in s.targets:
                    if isinstance(t, (ast.Subscript, ast.Attribute)) and val(t.value, st) == D:
                        report(s, "del", norm(t.value))
                return st
            if isinstance(s, ast.Expr):
                check_expr(s.value, st)
                return st
            if isinstance(s, (ast.Return,)):
                if s.value is not None:
                    check_expr(s.value, st)
                return st
            if isinstance(s, ast.Raise):
                return st
            if isinstance(s, ast.If):
                check_expr(s.test, st)
                a = exec_block(s.body, dict(st))
                b = exec_block(s.orelse, dict(st))
                return merge(a, b)
            if isinstance(s, (ast.For, ast.AsyncFor)):
                check_expr(s.iter, st)
                iv = val(s.iter, st)
                cur = dict(st)
                for _ in range(2):
                    assign_target(s.target, D if iv in (D, E) else N, cur, s)
                    cur = merge(cur, exec_block(s.body, dict(cur)))
                return merge(cur, exec_block(s.orelse, dict(cur))) if s.orelse else cur
            if isinstance(s, ast.While):
                cur = dict(st)
                for _ in range(2):
                    check_expr(s.test, cur)
                    cur = merge(cur, exec_block(s.body, dict(cur)))
                return cur
            if isinstance(s, ast.Try):
                a = exec_block(s.body, dict(st))
                out = a
                for h in s.handlers:
                    out = merge(out, exec_block(h.body, merge(dict(st), a)))
                if s.orelse:
                    out = merge(out, exec_block(s.orelse, dict(a)))
                if s.finalbody:
                    out = exec_block(s.finalbody, out)
                return out
            if isinstance(s, (ast.With, ast.AsyncWith)):
                for it in s.items:
                    check_expr(it.context_expr, st)
                    if it.optional_vars is not None:
                        assign_target(it.optional_vars, val(it.context_expr, st), st, s)
                return exec_block(s.body, st)
            if isinstance(s, ast.Assert):
                check_expr(s.test, st)
                return st
            if hasattr(ast, "Match") and isinstance(s, ast.Match):
                check_expr(s.subject, st)
                out = dict(st)
                for c in s.cases:
                    out = merge(out, exec_block(c.body, dict(st)))
                return out
            return st

        st0 = {k: D for k in root_names}
        exec_block(fn.node.body if isinstance(fn.node.body, list) else [], st0)
        # nested functions / lambdas defined inside are analysed with the same initial roots (closures)
        for inner in [f for f in self.prog.functions.values() if f.parent is fn]:
            sub_roots = {k: v for k, v in root_names.items() if k not in inner.params}
            for m in self.analyse(inner, sub_roots, is_root, depth, attr_store_on_root):
                found.append(Mutation(fn, m.node, m.how + f" (in nested {inner.name})", m.what, m.chain))
        return found

    # ----------------------------------------------------------------------------------------------
    def param_mutations(self, fn: FunctionInfo, idx: int, depth: int) -> list[Mutation]:
        key = (fn.fullname, idx)
        if key in self._param_summary:
            return self._param_summary[key]
        if key in self._busy or idx >= len(fn.params):
            return []
        self._busy.add(key)
        try:
            r = self.analyse(fn, {fn.params[idx]: "param"}, None, depth)
        finally:
            self._busy.discard(key)
        self._param_summary[key] = r
        return r

    def returns_alias_of(self, fn: FunctionInfo) -> set[int]:
        """parameter indices whose (sub)object may be returned un-copied"""
        cache = self.__dict__.setdefault("_ret_alias", {})
        if fn.fullname in cache:
            return cache[fn.fullname]
        cache[fn.fullname] = set()
        out: set[int] = set()
        params = fn.params
        alias: dict[str, int] = {p: i for i, p in enumerate(params)}
        for n in walk_local(fn.node):
            if isinstance(n, ast.Assign) and len(n.targets) == 1 and isinstance(n.targets[0], ast.Name):
                b = _base_name(n.value)
                if b in alias:
                    alias[n.targets[0].id] = alias[b]
        for n in walk_local(fn.node):
            if isinstance(n, (ast.Return, ast.Yield)) and n.value is not None:
                for e in ([n.value] if not isinstance(n.value, ast.Tuple) else n.value.elts):
                    b = _base_name(e)
                    if b in alias:
                        out.add(alias[b])
        cache[fn.fullname] = out
        return out

    def _arg_for(self, call: ast.Call, g: FunctionInfo, idx: int) -> Optional[ast.AST]:
        params = g.params
        off = 1 if (params and params[0] in ("self", "cls") and isinstance(call.func, ast.Attribute)) else 0
        if idx == 0 and off and isinstance(call.func, ast.Attribute):
            return call.func.value
        pos = idx - off
        if 0 <= pos < len(call.args):
            return call.args[pos]
        for k in call.keywords:
            if k.arg == params[idx]:
                return k.value
        return None

    def _param_index(self, call: ast.Call, g: FunctionInfo, arg: ast.AST) -> Optional[int]:
        params = g.params
        off = 1 if (params and params[0] in ("self", "cls") and isinstance(call.func, ast.Attribute)) else 0
        if g.name == "__init__" and not isinstance(call.func, ast.Attribute):
            off = 1
        if g.name == "__init__" and isinstance(call.func, ast.Attribute) and call_name(call) != "__init__":
            off = 1
        if arg in call.args:
            i = call.args.index(arg) + off
            return i if i < len(params) else None
        for k in call.keywords:
            if k.value is arg and k.arg in params:
                return params.index(k.arg)
        return None


def _base_name(e: ast.AST) -> Optional[str]:
    """root Name of an attribute / subscript / view chain without a copy in between"""
    while True:
        if isinstance(e, ast.Name):
            return e.id
        if isinstance(e, (ast.Attribute, ast.Subscript)):
            if isinstance(e, ast.Subscript) and isinstance(e.slice, ast.Slice):
                return None
            e = e.value
            continue
        if isinstance(e, ast.Call) and isinstance(e.func, ast.Attribute) and e.func.attr in VIEW_METHODS:
            e = e.func.value
            continue
        return None
