"""Acyclic path enumeration over structured statement lists (syntax-directed CFG walk).

A path is a sequence of events:
  ('cond', test_expr, polarity)      an if/while/ifexp-free branch decision
  ('stmt', node)                     a simple statement executed
  ('loop', node, 'enter'|'skip')     a for/while whose body is analysed once (enter) or not at all (skip)
  ('exit', kind, node)               return / raise / break / continue / fallthrough
Loops are unrolled at most once (0 or 1 iterations) which is exact for the rules that use this
(pairing / must-pass-through inside one iteration) and is stated in each rule.
"""
from __future__ import annotations

import ast
from typing import Iterator

MAX_PATHS = 4096


class TooManyPaths(Exception):
    pass


def paths(stmts: list[ast.stmt], unroll_loops: bool = True) -> list[list[tuple]]:
    out: list[list[tuple]] = []

    def go(todo: list[ast.stmt], acc: list[tuple], conts: list[list[ast.stmt]]):
        """todo: remaining statements of the current block; conts: stack of continuations (outer blocks)."""
        if len(out) > MAX_PATHS:
            raise TooManyPaths()
        if not todo:
            if conts:
                go(conts[-1], acc, conts[:-1])
            else:
                out.append(acc + [("exit", "fallthrough", None)])
            return
        st, rest = todo[0], todo[1:]
        if isinstance(st, ast.If):
            go(st.body, acc + [("cond", st.test, True)], conts + [rest])
            go(st.orelse, acc + [("cond", st.test, False)], conts + [rest])
        elif isinstance(st, (ast.Return, ast.Raise)):
            out.append(acc + [("stmt", st), ("exit", "return" if isinstance(st, ast.Return) else "raise", st)])
        elif isinstance(st, (ast.Break, ast.Continue)):
            out.append(acc + [("exit", "break" if isinstance(st, ast.Break) else "continue", st)])
        elif isinstance(st, (ast.For, ast.AsyncFor, ast.While)):
            if unroll_loops:
                # one iteration: body then continue after the loop (break/continue inside end the sub-path
                # and are spliced to the continuation)
                sub = paths(st.body, unroll_loops)
                for sp in sub:
                    kind = sp[-1][1]
                    if kind in ("fallthrough", "continue", "break"):
                        go(rest, acc + [("loop", st, "enter")] + sp[:-1] + [("loop", st, "leave")], conts)
                    else:
                        out.append(acc + [("loop", st, "enter")] + sp)
                go(list(st.orelse) + rest, acc + [("loop", st, "skip")], conts)
            else:
                go(rest, acc + [("stmt", st)], conts)
        elif isinstance(st, ast.Try):
            # normal path through body (+else, +finally); handlers as alternative paths entered from the start
            go(list(st.body) + list(st.orelse) + list(st.finalbody) + rest, acc + [("try", st, "body")], conts)
            for h in st.handlers:
                go(list(h.body) + list(st.finalbody) + rest, acc + [("try", st, "handler"), ("handler", h)], conts)
        elif isinstance(st, (ast.With, ast.AsyncWith)):
            go(list(st.body) + rest, acc + [("stmt", st)], conts)
        elif hasattr(ast, "Match") and isinstance(st, ast.Match):
            for c in st.cases:
                go(list(c.body) + rest, acc + [("case", st, c)], conts)
        elif isinstance(st, ast.Assert) and isinstance(st.test, ast.Constant) and st.test.value is False:
            out.append(acc + [("stmt", st), ("exit", "raise", st)])
        else:
            go(rest, acc + [("stmt", st)], conts)

    go(list(stmts), [], [])
    return out


def stmts_on(path: list[tuple]) -> Iterator[ast.stmt]:
    for ev in path:
        if ev[0] == "stmt":
            yield ev[1]


def conds_on(path: list[tuple]) -> list[tuple[ast.expr, bool]]:
    return [(ev[1], ev[2]) for ev in path if ev[0] == "cond"]
