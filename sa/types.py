"""Type oracle: mypy (the repository's own dev dependency, in /venv) used as a library.

Only mypy's *inferred expression types* are used, as facts about the resolved program;
its diagnostics are never a verdict.  One run serves all rules; the table is cached under
/verif/.cache keyed by the digest of every analysed source, so it is always recomputed when
/repo changes.
"""
from __future__ import annotations

import ast
import os
import pickle
import sys
import tempfile
from typing import Any, Optional

from .frontend import PACKAGES, AnalysisError, ModuleInfo, Program

CACHE_DIR = os.environ.get("VERIF_CACHE_DIR") or os.path.join(os.path.dirname(os.path.dirname(os.path.abspath(__file__))), ".cache")
CACHE_VERSION = 3


class T:
    """A pickle-friendly, simplified mypy type."""

    __slots__ = ("k", "s", "fn", "args", "ret")

    def __init__(self, k: str, s: str, fn: str = "", args: tuple = (), ret: Optional["T"] = None):
        self.k, self.s, self.fn, self.args, self.ret = k, s, fn, args, ret

    def __repr__(self) -> str:
        return f"T({self.k}:{self.s})"

    def __getstate__(self):
        return (self.k, self.s, self.fn, self.args, self.ret)

    def __setstate__(self, st):
        self.k, self.s, self.fn, self.args, self.ret = st

    # convenience ---------------------------------------------------------
    def is_any(self) -> bool:
        return self.k == "any"

    def instances(self) -> list["T"]:
        """The Instance members of this type (a union is flattened, None dropped)."""
        if self.k == "instance":
            return [self]
        if self.k == "union":
            out = []
            for a in self.args:
                out.extend(a.instances())
            return out
        return []


ANY = T("any", "Any")


def _lite(t: Any, depth: int = 0) -> T:
    from mypy import types as mt

    try:
        t = mt.get_proper_type(t)
    except Exception:
        pass
    s = str(t)
    if depth > 4:
        return T("other", s)
    if isinstance(t, mt.AnyType):
        return T("any", s)
    if isinstance(t, mt.NoneType):
        return T("none", s)
    if isinstance(t, mt.Instance):
        return T("instance", s, t.type.fullname, tuple(_lite(a, depth + 1) for a in t.args))
    if isinstance(t, mt.UnionType):
        return T("union", s, "", tuple(_lite(a, depth + 1) for a in t.items))
    if isinstance(t, mt.TupleType):
        return T("tuple", s, "builtins.tuple", tuple(_lite(a, depth + 1) for a in t.items))
    if isinstance(t, mt.CallableType):
        fn = ""
        try:
            if t.is_type_obj():
                fn = t.type_object().fullname
        except Exception:
            pass
        return T("callable", s, fn, (), _lite(t.ret_type, depth + 1))
    if isinstance(t, mt.Overloaded):
        items = t.items
        return T("callable", s, "", (), _lite(items[0].ret_type, depth + 1) if items else None)
    if isinstance(t, mt.TypeType):
        inner = _lite(t.item, depth + 1)
        return T("typetype", s, inner.fn, (inner,))
    if isinstance(t, mt.TypeVarType):
        return T("typevar", s, t.fullname)
    if isinstance(t, mt.LiteralType):
        fb = _lite(t.fallback, depth + 1)
        return T("instance", s, fb.fn, ())
    return T("other", s)


def _run_mypy(repo: str) -> dict[str, dict[tuple, T]]:
    try:
        from mypy import build
        from mypy.find_sources import create_source_list
        from mypy.nodes import Expression, MypyFile, Node
        from mypy.options import Options
    except Exception as e:  # pragma: no cover
        raise AnalysisError(f"mypy not importable from {sys.executable}: {e}")

    cwd = os.getcwd()
    os.chdir(repo)
    try:
        opts = Options()
        opts.preserve_asts = True
        opts.export_types = True
        opts.incremental = False
        opts.cache_dir = os.devnull
        opts.check_untyped_defs = True
        opts.follow_imports = "skip"
        opts.ignore_missing_imports = True
        opts.show_traceback = False
        opts.python_version = sys.version_info[:2]
        sources = create_source_list(list(PACKAGES), opts)
        result = build.build(sources=sources, options=opts)
    finally:
        os.chdir(cwd)

    types = result.types
    table: dict[str, dict[tuple, T]] = {}
    SKIP = {"node", "info", "def_var", "type", "unanalyzed_type", "type_annotation", "original_def", "impl_", "defn"}
    for modname, f in result.files.items():
        if not modname.split(".")[0] in PACKAGES:
            continue
        if not isinstance(f, MypyFile):
            continue
        per: dict[tuple, T] = {}
        seen: set[int] = set()
        stack: list[Any] = list(f.defs)
        while stack:
            n = stack.pop()
            if id(n) in seen:
                continue
            seen.add(id(n))
            if isinstance(n, Expression):
                t = types.get(n)
                if t is not None and n.line >= 0 and n.end_line is not None:
                    key = (n.line, n.column, n.end_line, n.end_column)
                    if key not in per:
                        per[key] = _lite(t)
            for name in dir(type(n)):
                if name.startswith("_") or name in SKIP:
                    continue
                try:
                    v = getattr(n, name)
                except Exception:
                    continue
                if isinstance(v, Node):
                    stack.append(v)
                elif isinstance(v, (list, tuple)):
                    for x in v:
                        if isinstance(x, Node):
                            stack.append(x)
                        elif isinstance(x, (list, tuple)):
                            stack.extend(y for y in x if isinstance(y, Node))
        table[modname] = per
    return table


class TypeTable:
    def __init__(self, prog: Program, use_cache: bool = True):
        self.prog = prog
        self.table: dict[str, dict[tuple, T]] = {}
        self.cold = False
        path = os.path.join(CACHE_DIR, f"types-v{CACHE_VERSION}-{prog.digest[:32]}.pkl")
        if use_cache and os.path.exists(path):
            try:
                with open(path, "rb") as fh:
                    self.table = pickle.load(fh)
            except Exception:
                self.table = {}
        if not self.table:
            self.cold = True
            self.table = _run_mypy(prog.repo)
            if use_cache:
                try:
                    os.makedirs(CACHE_DIR, exist_ok=True)
                    # prune stale tables
                    for f in os.listdir(CACHE_DIR):
                        if f.startswith("types-") and f.endswith(".pkl"):
                            fp = os.path.join(CACHE_DIR, f)
                            try:
                                if len(os.listdir(CACHE_DIR)) > 40:
                                    os.unlink(fp)
                            except OSError:
                                pass
                    fd, tmp = tempfile.mkstemp(dir=CACHE_DIR)
                    with os.fdopen(fd, "wb") as fh:
                        pickle.dump(self.table, fh, protocol=pickle.HIGHEST_PROTOCOL)
                    os.replace(tmp, path)
                except OSError:
                    pass
        self.n_typed = sum(len(v) for v in self.table.values())
        if self.n_typed < 10000:
            raise AnalysisError(f"mypy produced only {self.n_typed} typed expressions")

    def of(self, m: ModuleInfo, node: ast.AST) -> T:
        per = self.table.get(m.name)
        if per is None or not hasattr(node, "lineno"):
            return ANY
        key = (node.lineno, node.col_offset, node.end_lineno, node.end_col_offset)
        t = per.get(key)
        return t if t is not None else ANY
