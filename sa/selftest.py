"""Self-test battery: mutants and benign twins applied to scratch copies of the *current* /repo.

Each case edits one construct (text substitution located in the current source, or a seeded patch
from /verif/seeded/<id>/patch.diff) in a scratch copy outside /repo and /verif, re-runs the
property's check on the copy in a subprocess and records whether it reported a VIOLATION naming
the expected rule.  The battery never influences the exit status of a check: the verdict is about
/repo; on an edited tree some cases legitimately cannot be applied (recorded as not-applicable).

  python -m sa.selftest [C12 ...]        run the battery for the given properties (default: all)
"""
from __future__ import annotations

import concurrent.futures as cf
import glob
import json
import os
import shutil
import subprocess
import sys
import tempfile
import time

VERIF = os.path.dirname(os.path.dirname(os.path.abspath(__file__)))
PY = sys.executable


def _copy_repo(repo: str) -> str:
    base = os.environ.get("TMPDIR", "/tmp")
    d = tempfile.mkdtemp(prefix="verif-scratch-", dir=base)
    for pkg in ("geneticengine", "geml"):
        shutil.copytree(os.path.join(repo, pkg), os.path.join(d, pkg),
                        ignore=shutil.ignore_patterns("__pycache__", "*.pyc"))
    return d


def _run_case(case: dict, repo: str) -> dict:
    t0 = time.time()
    d = _copy_repo(repo)
    res = dict(id=case["id"], property=case["property"], expect=case["expect"], rule=case.get("rule", ""),
               kind=case.get("kind", "mutant"))
    try:
        if "patch" in case:
            p = subprocess.run(["patch", "-p1", "-s", "-f", "-i", case["patch"]], cwd=d, capture_output=True, text=True)
            if p.returncode != 0:
                res.update(outcome="not-applicable", detail="patch does not apply to the current tree")
                return res
        else:
            for (cfile, cfind, crepl) in [(case["file"], case["find"], case["replace"])] + list(case.get("extra", [])):
                path = os.path.join(d, cfile)
                src = open(path).read() if os.path.exists(path) else ""
                if src.count(cfind) != 1:
                    res.update(outcome="not-applicable", detail=f"anchor text occurs {src.count(cfind)}x in {cfile}")
                    return res
                open(path, "w").write(src.replace(cfind, crepl))
                try:
                    compile(open(path).read(), path, "exec")
                except SyntaxError as e:
                    res.update(outcome="broken-case", detail=f"mutant does not compile: {e}")
                    return res
        env = dict(os.environ, VERIF_SCRATCH_EVIDENCE=os.path.join(d, "_evidence"), VERIF_CACHE_DIR=os.path.join(d, "_cache"))
        p = subprocess.run([PY, "-m", "sa.main", case["property"], "--tier", "quick", "--repo", d],
                           cwd=VERIF, capture_output=True, text=True, env=env, timeout=600)
        out = p.stdout
        viol = [l for l in out.splitlines() if l.startswith("  finding:")]
        res["exit"] = p.returncode
        res["findings"] = [l.strip()[:240] for l in viol][:4]
        if case["expect"] == "violation":
            hit = p.returncode == 1 and (not case.get("rule") or any(case["rule"] in l for l in viol))
            res["outcome"] = "killed" if hit else ("analysis-error" if p.returncode == 2 else "missed")
        else:
            res["outcome"] = "silent" if p.returncode == 0 else ("analysis-error" if p.returncode == 2 else "false-alarm")
        if p.returncode == 2:
            res["detail"] = "".join(l for l in out.splitlines(True) if "ANALYSIS-ERROR" in l)[:300]
    except Exception as e:  # pragma: no cover
        res.update(outcome="broken-case", detail=repr(e))
    finally:
        shutil.rmtree(d, ignore_errors=True)
        res["wall_s"] = round(time.time() - t0, 2)
    return res


def cases_for(pid: str) -> list[dict]:
    from .selftest_defs import CASES

    out = [dict(c) for c in CASES if c["property"] == pid]
    for meta in sorted(glob.glob(os.path.join(VERIF, "seeded", "*", "meta.json"))):
        try:
            m = json.load(open(meta))
        except Exception:
            continue
        sd = os.path.dirname(meta)
        for prop in m.get("checked_by", [m.get("property")]):
            if prop == pid:
                out.append(dict(id="seeded/" + os.path.basename(sd), property=pid,
                                expect=m.get("expect", {}).get(pid, "violation") if isinstance(m.get("expect"), dict) else "violation",
                                rule=(m.get("caught_by_rule") or {}).get(pid, "") if isinstance(m.get("caught_by_rule"), dict) else "",
                                patch=os.path.join(sd, "patch.diff"), kind="seeded"))
    return out


def run_cases(cases: list[dict], repo: str = "/repo", jobs: int = 16) -> list[dict]:
    with cf.ThreadPoolExecutor(max_workers=jobs) as ex:
        return list(ex.map(lambda c: _run_case(c, repo), cases))


def run_battery(ctx) -> None:
    """Called in the thorough tier: records the matrix in the evidence, never changes the verdict."""
    cases = cases_for(ctx.pid)
    if not cases:
        ctx.extra["selftest"] = {"cases": 0}
        return
    # warm the type cache for nothing: every scratch copy has its own digest; run in parallel
    results = run_cases(cases, ctx.repo)
    summary: dict[str, int] = {}
    for r in results:
        summary[r["outcome"]] = summary.get(r["outcome"], 0) + 1
    ctx.extra["selftest"] = {"cases": len(cases), "summary": summary, "results": results}
    print(f"  self-test battery: {len(cases)} cases -> {summary}")
    for r in results:
        if r["outcome"] in ("missed", "false-alarm", "analysis-error", "broken-case"):
            print(f"    {r['outcome']}: {r['id']} (expected {r['expect']} {r.get('rule', '')}) {r.get('detail', '')}")


def main(argv: list[str]) -> int:
    from .selftest_defs import CASES

    pids = [a.upper() for a in argv if not a.startswith("-")] or sorted({c["property"] for c in CASES})
    only = None
    bad = 0
    for pid in pids:
        cases = cases_for(pid)
        t0 = time.time()
        results = run_cases(cases)
        summ: dict[str, int] = {}
        for r in results:
            summ[r["outcome"]] = summ.get(r["outcome"], 0) + 1
        print(f"{pid}: {len(cases)} cases {summ} in {time.time() - t0:.1f}s")
        for r in results:
            if r["outcome"] not in ("killed", "silent"):
                bad += 1
                print(f"   {r['outcome']}: {r['id']} expect={r['expect']} rule={r.get('rule')} exit={r.get('exit')} "
                      f"{r.get('detail', '')} {r.get('findings', '')}")
    return 1 if bad else 0


if __name__ == "__main__":
    sys.exit(main(sys.argv[1:]))
