"""A small interpreter of method bodies over a finite model: boolean atoms, symbolic objects and short symbolic lists.

Rules that are "a state machine over a few yes/no facts" (is there a best yet? is the new one better? does the individual
already have a fitness? is only-best recording on?) enumerate the valuations of those facts and *interpret the code* for each
one: assignments, if/else, guard clauses (early return / continue), boolean expressions with short-circuit semantics,
loops over short symbolic lists, comprehensions inside all()/any(), and calls of methods of the same object, which are
inlined through the class hierarchy (so extracting a helper, pulling code up into a base class or merging branches does not
change the verdict).  What the code *does* is recorded as a trace of effects (stores to attributes, calls of named methods
with their interpreted arguments, yields); the rule compares the trace with what the property requires for that valuation.

Anything the interpreter does not understand evaluates to UNKNOWN; a branch on UNKNOWN is explored both ways (the rule sees
all traces).  This is abstract interpretation over a finite domain; nothing is executed.
"""
from __future__ import annotations

import ast
import os
from dataclasses import dataclass, field
from typing import Any, Callable, Optional

from .astutil import call_name
from .frontend import ClassInfo, FunctionInfo, Program, norm, walk_local


class _Unknown:
    def __repr__(self):
        return "UNKNOWN"


UNKNOWN = _Unknown()


@dataclass(frozen=True)
class Sym:
    """a symbolic object (an individual, a fitness value, the stored best ...)"""
    tag: str

    def __repr__(self):
        return f"<{self.tag}>"


@dataclass(frozen=True)
class SVal:
    """a signed symbolic number: sign * <tag>  (enough to follow 'negate when minimising')"""
    sign: int
    tag: str

    def __repr__(self):
        return ("-" if self.sign < 0 else "+") + self.tag


@dataclass(frozen=True)
class SumVal:
    terms: tuple

    def __repr__(self):
        return "sum(" + ", ".join(map(repr, self.terms)) + ")"


@dataclass(frozen=True)
class TypeV:
    """a type as the grammar presents it: kind in builtin | list | tuple | annotated | union | class"""
    kind: str
    name: str
    args: tuple = ()
    meta: Any = None

    def __repr__(self):
        return f"<type {self.name}>"


class Obj:
    """an instance of a repository dataclass: mutable fields"""
    def __init__(self, cls: str, fields: dict, full: Optional[str] = None):
        self.cls, self.fields, self.full = cls, fields, full

    def __repr__(self):
        return f"{self.cls}({', '.join(f'{k}={v!r}' for k, v in self.fields.items())})"


class ObjDict(dict, Obj):
    """an instance of a repository class that subclasses dict (a table with attributes, possibly with a __missing__ hook)"""
    def __init__(self, cls: str, fields: dict, full: Optional[str] = None):
        dict.__init__(self)
        Obj.__init__(self, cls, fields, full)

    def __repr__(self):
        return f"{self.cls}{dict.__repr__(self)}"

    __hash__ = None


BUILTIN_TYPES = {n: TypeV("builtin", n) for n in ("int", "float", "bool", "str", "list", "tuple", "dict", "set", "object")}
TYPING_UNION = Sym("typing.Union")
TYPING_ANNOTATED = Sym("typing.Annotated")


def type_attr(t: TypeV, attr: str) -> Any:
    """what the typing runtime exposes on a type of this form (None = attribute absent)"""
    if attr == "__metadata__":
        return [t.meta] if t.kind == "annotated" else None
    if attr == "__origin__":
        return {"list": BUILTIN_TYPES["list"], "tuple": BUILTIN_TYPES["tuple"], "union": TYPING_UNION,
                "annotated": t.args[0] if t.args else UNKNOWN}.get(t.kind)
    if attr == "__args__":
        return list(t.args) if t.kind in ("list", "tuple", "annotated", "union") else None
    if attr == "__name__":
        return t.name if t.kind in ("builtin", "class") else None
    if attr in ("__init__", "__module__", "mro", "__class__"):
        return UNKNOWN
    return None


class Arr(list):
    """a numeric array (numpy semantics for +, - with a scalar)"""


class DDict(dict):
    """collections.defaultdict: reading a missing key inserts a fresh empty list (or set, when factory is set)"""
    factory = list


class MaxV:
    """offset + max/min(items): items are affine symbolic numbers (absint.Lin)"""
    def __init__(self, kind: str, items: tuple, offset: Any = 0):
        self.kind, self.items, self.offset = kind, tuple(items), offset

    def __repr__(self):
        return f"{self.offset!r} + {self.kind}({', '.join(map(repr, self.items))})"


def _lin(v: Any):
    from .absint import Lin
    if isinstance(v, Lin):
        return v
    if isinstance(v, (int, float)) and not isinstance(v, bool):
        return Lin.c(v)
    return None


def sym_add(l: Any, r: Any, sign: int = 1) -> Any:
    """l + sign*r over concrete numbers, affine symbolic numbers and max/min terms"""
    from .absint import Lin
    if isinstance(l, MaxV) and _lin(r) is not None:
        return MaxV(l.kind, l.items, _lin(l.offset) + (_lin(r) if sign > 0 else -_lin(r)))
    if isinstance(r, MaxV) and _lin(l) is not None and sign > 0:
        return MaxV(r.kind, r.items, _lin(r.offset) + _lin(l))
    if (isinstance(l, Lin) or isinstance(r, Lin)) and _lin(l) is not None and _lin(r) is not None:
        return _lin(l) + _lin(r) if sign > 0 else _lin(l) - _lin(r)
    return UNKNOWN


class GenList(list):
    """the values a generator object still has to produce.  Generator calls and generator expressions are evaluated eagerly, but the
    object stays one-shot as in Python: a for loop / comprehension over it takes what is left, and a second pass over the same
    object finds nothing (a generator kept in a table and iterated on every round of a fixpoint is empty from the second round on)"""
    spent = False


def _take(it):
    """what an iteration over 'it' sees; a generator object is used up by it"""
    if isinstance(it, GenList):
        if it.spent:
            return []
        it.spent = True
        return list(it)
    return it


class BoundOp:
    """a bound special method used as a value: d.__getitem__, xs.__contains__, d.get"""
    def __init__(self, kind: str, target: Any):
        self.kind, self.target = kind, target


class LocalFn:
    def __init__(self, node, env, owner, defaults=None):
        self.node, self.env, self.owner = node, env, owner
        self.defaults = defaults   # parameter defaults evaluated when the function / lambda was created (Python semantics)


@dataclass
class Effect:
    kind: str            # 'store' | 'call' | 'yield'
    name: str            # attribute path / method name
    args: tuple = ()
    kwargs: dict = field(default_factory=dict)
    node: Any = None
    fn: Any = None
    recv: Any = None


class _Return(Exception):
    def __init__(self, value):
        self.value = value


class _Raise(_Return):
    """an exception raised by the interpreted code: propagates through inlined calls up to a matching try/except"""
    def __init__(self, name: str, effect: Any = None):
        super().__init__(UNKNOWN)
        self.name, self.effect = name, effect


class _Loop(Exception):
    def __init__(self, kind):
        self.kind = kind


class _GenStop(Exception):
    """the consumer of a lazily interpreted generator left its loop (break / return / raise): the generator is abandoned"""
    def __init__(self, pending=None):
        self.pending = pending


class Budget(Exception):
    pass


class Interp:
    """One interpretation = one valuation of the atoms (held by the caller's `atom` callback) and one choice sequence for
    UNKNOWN branch conditions.  `run` explores all choice sequences and returns every trace."""

    def __init__(self, prog: Program, cls: Optional[ClassInfo], atom: Callable[["Interp", ast.AST, dict], Any],
                 call_model: Optional[Callable[["Interp", ast.Call, dict, list, dict], Any]] = None,
                 record_calls: tuple = (), max_depth: int = 4, max_traces: int = 64):
        self.prog, self.cls, self.atom, self.call_model = prog, cls, atom, call_model
        self.record_calls = set(record_calls)
        self.max_depth, self.max_traces = max_depth, max_traces
        self.trace: list[Effect] = []
        self.choices: list[bool] = []
        self._pos = 0
        self.fn_stack: list[FunctionInfo] = []
        self.undecided: list[str] = []
        self.heap: dict = {}   # (symbolic object tag, attribute) -> value
        self.globals: dict = {}  # (module, name) -> value of a module-level container, shared within one trace

    # ------------------------------------------------------------------ driver
    def run(self, fn: FunctionInfo, env: dict, prelude: Optional[tuple] = None) -> list[tuple[list[Effect], Any, list[str]]]:
        """all (trace, return value, notes) over the choices for UNKNOWN conditions.  *prelude* = (fn0, env0): a method
        interpreted first on the same object (its stores to self.* are visible to *fn*)."""
        results = []
        self.envs = []
        self.fork_sites = []
        pending = [[]]
        while pending:
            if len(results) >= self.max_traces:
                raise Budget()
            pre = pending.pop()
            self.choices, self._pos, self.trace, self.undecided = list(pre), 0, [], []
            self.globals = {}
            if self.on_start is not None:
                self.on_start()
            env1 = _copy_env(env)
            if prelude is not None:
                self.fn_stack = [prelude[0]]
                env0 = _copy_env(prelude[1])
                try:
                    self.call_body(prelude[0], env0, 0)
                except _Loop:
                    pass
                if self.prelude_same_object:
                    for k, v in env0.items():
                        if k.startswith("self."):
                            env1[k] = v
                self.prelude_len = len(self.trace)
            # attributes given for a symbolic object by path ('node.attr') are attributes of that object under any name
            for k_, v_ in list(env1.items()):
                if k_.count(".") == 1:
                    root_, attr_ = k_.split(".")
                    if isinstance(env1.get(root_), Sym) and root_ != "self":
                        self.heap[(env1[root_].tag, attr_)] = v_
            self.fn_stack = [fn]
            if fn.parent is not None and isinstance(fn.node, (ast.FunctionDef, ast.AsyncFunctionDef)) and fn.name not in env1:
                env1[fn.name] = LocalFn(fn.node, env1, fn)   # a nested function can call itself
            if fn.parent is not None and isinstance(fn.node, (ast.FunctionDef, ast.AsyncFunctionDef)):
                # ... and the functions defined next to it in the enclosing function
                for sib in ast.walk(fn.parent.node):
                    if isinstance(sib, (ast.FunctionDef, ast.AsyncFunctionDef)) and sib is not fn.node and sib is not fn.parent.node \
                            and sib.name not in env1 and any(sib is b for b in fn.parent.node.body):
                        env1[sib.name] = LocalFn(sib, env1, fn)
            try:
                rv = self.call_body(fn, env1, 0)
            except _Raise:
                rv = UNKNOWN
            except _Loop:
                rv = None
            results.append((self.trace, rv, list(self.undecided)))
            self.envs.append(env1)
            # branch points discovered beyond the prefix: schedule the alternatives
            for i in range(len(pre), len(self.choices)):
                alt = self.choices[:i] + [not self.choices[i]]
                pending.append(alt)
        return results

    def choose(self) -> bool:
        if self._pos < len(self.choices):
            v = self.choices[self._pos]
        else:
            v = True
            self.choices.append(v)
            st = getattr(self, "cur_stmt", None)
            if st is not None and len(self.fork_sites) < 8:
                first = norm(st).split("\n")[0][:90]
                self.fork_sites.append(f"{getattr(st, 'lineno', '?')}: {first}")
        self._pos += 1
        return v

    # ------------------------------------------------------------------ statements
    def _lazy_generator_loop(self, st: ast.For, env: dict, depth: int) -> bool:
        """for x in self.gen(...):  with gen a generator method of the object's class - interpreted as a coroutine: the loop body runs at every yield,
        so what the generator does between two yields (consulting a budget, advancing a counter) interleaves with the body as in Python.
        Returns False when the loop is not of that form (the caller falls back to the eager reading)."""
        it = st.iter
        if not (isinstance(it, ast.Call) and isinstance(it.func, ast.Attribute) and isinstance(it.func.value, ast.Name) and it.func.value.id == "self"
                and self.cls is not None and depth < self.max_depth and not st.orelse):
            return False
        target = self.prog.lookup_method(self.cls, it.func.attr)
        if target is None or not isinstance(target.node, ast.FunctionDef) or not _is_generator(target.node) or target in self.fn_stack:
            return False
        if any(isinstance(y, ast.YieldFrom) for y in walk_local(target.node)):
            return False
        args = [self.ev(a_, env, depth) for a_ in it.args]
        kwargs = {k_.arg: self.ev(k_.value, env, depth) for k_ in it.keywords if k_.arg}
        params = target.params[1:]
        cenv = {"self": env.get("self", Sym("self"))}
        for k_, v_ in env.items():
            if k_.startswith("self."):
                cenv[k_] = v_
        a = target.node.args
        for p_, d_ in zip([x.arg for x in a.args][len(a.args) - len(a.defaults):], a.defaults):
            cenv[p_] = self.ev(d_, {}, depth)
        for p_, v_ in zip(params, args):
            cenv[p_] = v_
        cenv.update(kwargs)

        def consume(value):
            for k_, v_ in cenv.items():          # the generator's view of the object is the consumer's
                if k_.startswith("self."):
                    env[k_] = v_
            self.assign(st.target, value, env, st)
            self.fn_stack.append(consumer_fn)
            hooks.append((None, None))           # yields of the consumer's own body are not the generator's
            try:
                self.block(st.body, env, depth)
            except _Loop as l_:
                if l_.kind == "break":
                    raise _GenStop()
            except _Return as r_:
                raise _GenStop(r_)
            finally:
                hooks.pop()
                self.fn_stack.pop()
                for k_, v_ in env.items():
                    if k_.startswith("self."):
                        cenv[k_] = v_

        consumer_fn = self.fn_stack[-1]
        hooks = self.__dict__.setdefault("_yield_hooks", [])
        hooks.append((target, consume))
        self.fn_stack.append(target)
        pending = None
        try:
            self.block(target.node.body, cenv, depth + 1)
        except _GenStop as g_:
            pending = g_.pending
        except _Raise:
            raise
        except _Return:
            pass                                  # the generator returned: the loop is over
        finally:
            self.fn_stack.pop()
            hooks.pop()
            for k_, v_ in cenv.items():
                if k_.startswith("self."):
                    env[k_] = v_
        if pending is not None:
            raise pending
        return True

    def call_body(self, fn: FunctionInfo, env: dict, depth: int) -> Any:
        gen = depth > 0 and _is_generator(fn.node)
        start = len(self.trace)
        rv = None
        try:
            self.block(fn.node.body, env, depth)
        except _Raise:
            if depth > 0:
                raise
            rv = UNKNOWN
        except _Return as r:
            rv = r.value
        if gen:
            return self._collect_yields(start)
        return rv

    def throw(self, name: str, node: Any = None) -> None:
        eff = Effect("raise", name, node=node, fn=self.fn_stack[-1] if self.fn_stack else None)
        self.trace.append(eff)
        raise _Raise(name.split(":")[0].split("(")[0].strip(), eff)

    def _collect_yields(self, start: int) -> Any:
        """the values a generator call produced: its yield effects are removed from the trace and returned as a list"""
        out, keep, ok = [], [], True
        for e in self.trace[start:]:
            if e.kind == "yield":
                v = e.args[0]
                if e.name == "from":
                    if isinstance(v, list):
                        out.extend(v)
                    else:
                        ok = False
                else:
                    out.append(v)
            else:
                keep.append(e)
        del self.trace[start:]
        self.trace.extend(keep)
        return GenList(out) if ok else UNKNOWN

    def block(self, stmts: list[ast.stmt], env: dict, depth: int) -> None:
        for st in stmts:
            self.stmt(st, env, depth)

    def stmt(self, st: ast.stmt, env: dict, depth: int) -> None:
        self.cur_stmt = st
        if isinstance(st, ast.Expr):
            v = st.value
            if isinstance(v, ast.Yield):
                val_ = self.ev(v.value, env, depth) if v.value is not None else None
                hooks_ = getattr(self, "_yield_hooks", None)
                if hooks_ and self.fn_stack and hooks_[-1][0] is self.fn_stack[-1]:
                    hooks_[-1][1](val_)          # a 'for x in self.gen():' consumer runs its body now, between this yield and the next statement
                else:
                    self.trace.append(Effect("yield", "", (val_,), node=st))
            elif isinstance(v, ast.YieldFrom):
                self.trace.append(Effect("yield", "from", (self.ev(v.value, env, depth),), node=st))
            else:
                self.ev(v, env, depth)
        elif isinstance(st, (ast.Assign, ast.AnnAssign)):
            if isinstance(st, ast.AnnAssign) and st.value is None:
                return
            val = self.ev(st.value, env, depth)
            for t in (st.targets if isinstance(st, ast.Assign) else [st.target]):
                self.assign(t, val, env, st)
        elif isinstance(st, ast.AugAssign):
            rhs = self.ev(st.value, env, depth)
            cur = self.ev(st.target, env, depth) if isinstance(st.target, (ast.Name, ast.Attribute, ast.Subscript)) else UNKNOWN
            new = UNKNOWN
            if _is_num(cur) and _is_num(rhs) and isinstance(st.op, (ast.Add, ast.Sub)):
                new = cur + rhs if isinstance(st.op, ast.Add) else cur - rhs
            elif isinstance(st.op, (ast.Add, ast.Sub)) and (_lin(cur) is not None or isinstance(cur, MaxV)) and (_lin(rhs) is not None or isinstance(rhs, MaxV)):
                new = sym_add(cur, rhs, 1 if isinstance(st.op, ast.Add) else -1)
            elif _is_num(cur) and _is_num(rhs) and isinstance(st.op, ast.Mult):
                new = cur * rhs
            elif _is_num(cur) and _is_num(rhs) and isinstance(st.op, ast.Div) and rhs != 0:
                new = cur / rhs
            elif isinstance(cur, list) and isinstance(rhs, list) and isinstance(st.op, ast.Add):
                cur.extend(rhs)          # in place: every alias of the list sees the extension
                new = cur
            elif isinstance(cur, set) and isinstance(rhs, set) and isinstance(st.op, (ast.BitOr, ast.BitAnd, ast.Sub, ast.BitXor)):
                if isinstance(st.op, ast.BitOr):
                    cur |= rhs
                elif isinstance(st.op, ast.BitAnd):
                    cur &= rhs
                elif isinstance(st.op, ast.Sub):
                    cur -= rhs
                else:
                    cur ^= rhs
                new = cur
            elif isinstance(cur, bool) and isinstance(rhs, bool) and isinstance(st.op, (ast.BitOr, ast.BitAnd)):
                new = (cur or rhs) if isinstance(st.op, ast.BitOr) else (cur and rhs)
            if isinstance(st.target, ast.Name):
                env[st.target.id] = new
            else:
                self.assign(st.target, new, env, st)
        elif isinstance(st, ast.If):
            if self.truthy(self.ev(st.test, env, depth)):
                self.block(st.body, env, depth)
            else:
                self.block(st.orelse, env, depth)
        elif isinstance(st, ast.Return):
            raise _Return(self.ev(st.value, env, depth) if st.value is not None else None)
        elif isinstance(st, (ast.For, ast.AsyncFor)) and isinstance(st.iter, ast.Call) and call_name(st.iter) == "count" \
                and "count" not in env and len(st.iter.args) <= 1:
            # itertools.count(start): an unbounded loop, left by break / return (cut like a while loop otherwise)
            start_ = self.ev(st.iter.args[0], env, depth) if st.iter.args else 0
            n_ = 0
            while True:
                if n_ >= max(self.while_cap, 3) + 3:
                    self.undecided.append("unbounded loop cut")
                    break
                self.assign(st.target, (start_ + n_) if isinstance(start_, int) else UNKNOWN, env, st)
                n_ += 1
                try:
                    self.block(st.body, env, depth)
                except _Loop as l:
                    if l.kind == "break":
                        break
        elif isinstance(st, (ast.For, ast.AsyncFor)) and self._lazy_generator_loop(st, env, depth):
            pass
        elif isinstance(st, (ast.For, ast.AsyncFor)):
            it = self.ev(st.iter, env, depth)
            if isinstance(it, dict):
                it = list(it.keys())
            elif isinstance(it, set):
                it = sorted(it, key=repr)
            if not isinstance(it, list) and self.strict_iter:
                self.undecided.append(f"loop over a value the model does not follow: {norm(st.iter)[:50]}")
            gen_ = it if isinstance(it, GenList) else None
            it = _take(it)
            items = it if isinstance(it, list) else [Sym(f"elem:{norm(st.iter)[:30]}")]
            for i_x, x in enumerate(items):
                self.assign(st.target, x, env, st)
                try:
                    self.block(st.body, env, depth)
                except _Loop as l:
                    if l.kind == "break":
                        if gen_ is not None:
                            gen_[:] = items[i_x + 1:]       # a generator left by break keeps what it has not produced yet
                            gen_.spent = False
                        break
                    continue
            else:
                self.block(st.orelse, env, depth)
        elif isinstance(st, ast.While):
            n = 0
            while self.truthy(self.ev(st.test, env, depth)):
                if n >= self.while_cap:
                    self.undecided.append(f"while loop cut after {self.while_cap} iterations")
                    break
                n += 1
                try:
                    self.block(st.body, env, depth)
                except _Loop as l:
                    if l.kind == "break":
                        break
        elif isinstance(st, ast.Continue):
            raise _Loop("continue")
        elif isinstance(st, ast.Break):
            raise _Loop("break")
        elif isinstance(st, ast.Raise):
            exc = st.exc.func if isinstance(st.exc, ast.Call) else st.exc
            from .frontend import dotted as _dotted
            nm_ = (_dotted(exc) or "Exception").split(".")[-1] if exc is not None else "Exception"
            handling = self.__dict__.setdefault("_handling", [])
            if exc is None and handling:
                nm_ = handling[-1]            # a bare 'raise' inside a handler re-raises what is being handled
            elif isinstance(exc, ast.Name) and isinstance(env.get(exc.id), Sym) and env[exc.id].tag.startswith("exc:"):
                nm_ = env[exc.id].tag[4:]     # 'raise e' with the handler's own name
            self.throw(nm_ + (": " + norm(st.exc)[:40] if st.exc is not None else ""), st)
        elif isinstance(st, ast.Assert):
            v = self.ev(st.test, env, depth)
            if v is False:
                self.throw("AssertionError", st)
        elif isinstance(st, (ast.With, ast.AsyncWith)):
            for it in st.items:
                v = self.ev(it.context_expr, env, depth)
                if it.optional_vars is not None:
                    self.assign(it.optional_vars, v, env, st)
            self.block(st.body, env, depth)
        elif isinstance(st, ast.Try):
            try:
                self.block(st.body, env, depth)
            except _Raise as r:
                handler = None
                for h in st.handlers:
                    names = [] if h.type is None else [x for x in ([h.type] if not isinstance(h.type, ast.Tuple) else h.type.elts)]
                    ids = [(n_.id if isinstance(n_, ast.Name) else n_.attr if isinstance(n_, ast.Attribute) else "?") for n_ in names]
                    if h.type is None or r.name in ids or any(i_ in ("Exception", "BaseException") for i_ in ids) \
                            or (r.name in ("IndexError", "KeyError") and "LookupError" in ids):
                        handler = h
                        break
                if handler is None:
                    self.block(st.finalbody, env, depth)
                    raise
                if r.effect is not None:
                    r.effect.kind = "caught"
                if handler.name:
                    env[handler.name] = Sym("exc:" + r.name)
                handling = self.__dict__.setdefault("_handling", [])
                handling.append(r.name)
                try:
                    self.block(handler.body, env, depth)
                finally:
                    handling.pop()
            else:
                self.block(st.orelse, env, depth)
            self.block(st.finalbody, env, depth)
        elif isinstance(st, (ast.FunctionDef, ast.AsyncFunctionDef)):
            env[st.name] = LocalFn(st, env, self.fn_stack[-1], self._defaults(st, env, depth))
        elif isinstance(st, ast.Delete):
            for t in st.targets:
                if isinstance(t, ast.Name):
                    env.pop(t.id, None)
                    continue
                if isinstance(t, ast.Subscript):
                    base = self.ev(t.value, env, depth)
                    if isinstance(base, list) and isinstance(t.slice, ast.Slice):
                        lo_ = self.ev(t.slice.lower, env, depth) if t.slice.lower is not None else None
                        hi_ = self.ev(t.slice.upper, env, depth) if t.slice.upper is not None else None
                        if t.slice.step is None and all(x is None or (isinstance(x, int) and not isinstance(x, bool)) for x in (lo_, hi_)):
                            del base[lo_:hi_]
                            self.trace.append(Effect("store", (_path(t.value) or "?") + "[]", (UNKNOWN, UNKNOWN), node=st, fn=self.fn_stack[-1], recv=base))
                            continue
                    elif isinstance(base, list):
                        k_ = self.ev(t.slice, env, depth)
                        if isinstance(k_, int) and not isinstance(k_, bool):
                            if -len(base) <= k_ < len(base):
                                del base[k_]
                                self.trace.append(Effect("store", (_path(t.value) or "?") + "[]", (k_, UNKNOWN), node=st, fn=self.fn_stack[-1], recv=base))
                                continue
                            self.throw("IndexError: list assignment index out of range", st)
                    elif isinstance(base, dict):
                        k_ = self.ev(t.slice, env, depth)
                        if k_ is not UNKNOWN:
                            hk_ = self._hashable(k_)
                            if hk_ in base:
                                del base[hk_]
                                self.trace.append(Effect("store", (_path(t.value) or "?") + "[]", (k_, UNKNOWN), node=st, fn=self.fn_stack[-1], recv=base))
                                continue
                            self.throw("KeyError: " + repr(k_)[:30], st)
                    if isinstance(base, (list, dict, set)):
                        self.undecided.append("a 'del' on a container the model holds is not followed: its contents are not known from here")
                    else:
                        self.trace.append(Effect("store", (_path(t.value) or "?") + "[]", (UNKNOWN, UNKNOWN), node=st, fn=self.fn_stack[-1]))
                    continue
                if isinstance(t, ast.Attribute):
                    o_ = self.ev(t.value, env, depth)
                    if isinstance(o_, Obj):
                        o_.fields.pop(t.attr, None)
                    else:
                        pth_ = _path(t)
                        if pth_:
                            env.pop(pth_, None)
                    self.trace.append(Effect("store", (_path(t) or "?"), (UNKNOWN,), node=st, fn=self.fn_stack[-1]))
        # imports, pass, global: no effect

    def assign(self, t: ast.AST, val: Any, env: dict, node: ast.AST) -> None:
        if isinstance(t, ast.Name):
            env[t.id] = val
        elif isinstance(t, (ast.Tuple, ast.List)):
            if isinstance(val, Obj) and len(val.fields) == len(t.elts):
                val = list(val.fields.values())
            stars = [i_ for i_, el in enumerate(t.elts) if isinstance(el, ast.Starred)]
            if len(stars) == 1 and isinstance(val, (list, tuple)) and len(val) >= len(t.elts) - 1:
                # a, *rest, z = xs
                k_ = stars[0]
                tail_ = len(t.elts) - k_ - 1
                val = list(val)
                parts_ = val[:k_] + [val[k_:len(val) - tail_]] + (val[len(val) - tail_:] if tail_ else [])
                for el, v in zip(t.elts, parts_):
                    self.assign(el.value if isinstance(el, ast.Starred) else el, v, env, node)
                return
            vals = val if isinstance(val, (list, tuple)) and len(val) == len(t.elts) else [UNKNOWN] * len(t.elts)
            for el, v in zip(t.elts, vals):
                self.assign(el, v, env, node)
        elif isinstance(t, ast.Attribute) and isinstance(self.ev(t.value, env, 9), Obj):
            o = self.ev(t.value, env, 9)
            o.fields[t.attr] = val
            self.trace.append(Effect("store", f"{o.cls}.{t.attr}", (val,), node=node, fn=self.fn_stack[-1], recv=o))
        elif isinstance(t, ast.Attribute):
            path = _path(t)
            if path:
                root = path.split(".")[0]
                base = env.get(root)
                full = path
                if isinstance(base, Sym) and root != "self":
                    full = base.tag + path[len(root):]
                self.trace.append(Effect("store", full, (val,), node=node, fn=self.fn_stack[-1]))
                env[path] = val
        elif isinstance(t, ast.Subscript):
            path = _path(t.value)
            base = self.ev(t.value, env, 9)
            key = self.ev(t.slice, env, 9) if not isinstance(t.slice, ast.Slice) else UNKNOWN
            if isinstance(base, dict) and key is not UNKNOWN:
                base[self._hashable(key)] = val
            elif isinstance(base, list) and isinstance(key, int) and not isinstance(key, bool) and -len(base) <= key < len(base):
                base[key] = val
            elif isinstance(base, list) and isinstance(key, int) and not isinstance(key, bool) and self.strict_index \
                    and all(x is not UNKNOWN for x in base):
                # a store beyond the end of a list the model holds completely (lst[i] = lst.pop() with i the last slot: the pop runs first)
                self.throw("IndexError: list assignment index out of range", node)
            self.trace.append(Effect("store", (path or "?") + "[]", (key, val), node=node, fn=self.fn_stack[-1], recv=base))

    # ------------------------------------------------------------------ expressions
    def truthy(self, v: Any) -> bool:
        if isinstance(v, (SVal, SumVal, LocalFn)):
            return True   # a non-zero number / a function object
        if isinstance(v, Sym) and not any(ch in v.tag for ch in ".([") and not v.tag.startswith(("elem:", "builtin:")):
            return True    # a model entity (an individual, a node, the problem ...): plain objects are truthy
        if isinstance(v, (Obj, TypeV)):
            return True
        if v is UNKNOWN or isinstance(v, Sym):
            return self.choose()
        if isinstance(v, (dict, set)):
            return len(v) > 0
        if isinstance(v, list):
            return len(v) > 0
        return bool(v)

    def ev(self, e: Optional[ast.AST], env: dict, depth: int) -> Any:
        if e is None:
            return None
        a = self.atom(self, e, env)
        if a is not None:
            return a
        if isinstance(e, ast.Constant):
            return e.value
        if isinstance(e, ast.Name):
            if e.id in env:
                return env[e.id]
            if e.id in BUILTIN_TYPES:
                return BUILTIN_TYPES[e.id]
            if e.id in ("min", "max", "len", "sum", "abs", "sorted"):
                return Sym("builtin:" + e.id)
            g_ = self._module_global(e.id, depth)
            if g_ is not None:
                return g_
            if e.id in ("Union", "Annotated") and self.fn_stack:
                full = self.prog.resolve_name(self.fn_stack[-1].module, e.id)
                if full in ("typing.Union", "typing.Annotated"):
                    return TYPING_UNION if e.id == "Union" else TYPING_ANNOTATED
            return UNKNOWN
        if isinstance(e, ast.Attribute):
            p = _path(e)
            if p is not None and p in env:
                return env[p]
            if isinstance(e.value, ast.Name) and e.value.id == "operator" and "operator" not in env:
                return Sym("operator." + e.attr)
            base = self.ev(e.value, env, depth)
            if e.attr in ("__getitem__", "__contains__") and isinstance(base, (dict, list, set)):
                return BoundOp(e.attr, base)
            if isinstance(base, Obj) and e.attr == "__dict__":
                return base.fields          # the instance dictionary itself: updates through it are updates of the object
            if isinstance(base, Obj) and e.attr not in base.fields and isinstance(e.ctx, ast.Load) and depth < self.max_depth:
                # a property / cached_property of the object's class: reading it runs the getter on the object (a cached one is kept on the object)
                ci_ = self.prog.classes.get(base.full) if base.full else None
                pm_ = self.prog.lookup_method(ci_, e.attr) if ci_ is not None else None
                if pm_ is not None and isinstance(pm_.node, ast.FunctionDef) and len(pm_.params) == 1 and pm_ not in self.fn_stack[-3:]:
                    from .frontend import decorators as _decos4
                    kinds_ = {d_.split(".")[-1] for d_ in _decos4(pm_.node)}
                    if kinds_ & {"property", "cached_property"}:
                        self.fn_stack.append(pm_)
                        saved_cls_ = self.cls
                        self.cls = ci_
                        try:
                            cenv4_ = {"self": base}
                            for k_, x_ in env.items():
                                if "." in k_ and not k_.startswith("self.") and isinstance(env.get(k_.split(".")[0]), Sym) is False:
                                    cenv4_[k_] = x_          # what the model knows about symbolic objects by path (grammar.recursive_prods)
                            v_ = self.call_body(pm_, cenv4_, depth + 1)
                        finally:
                            self.fn_stack.pop()
                            self.cls = saved_cls_
                        if "cached_property" in kinds_ and v_ is not UNKNOWN:
                            base.fields[e.attr] = v_
                        return v_
            if isinstance(base, Obj) and e.attr not in base.fields and isinstance(e.ctx, ast.Load):
                cis_ = [kk for kk in self.prog.classes.values() if (kk.fullname == base.full if base.full else kk.name == base.cls)]
                if len(cis_) == 1:
                    bm_ = self.prog.lookup_method(cis_[0], e.attr)
                    if bm_ is not None and isinstance(bm_.node, ast.FunctionDef):
                        from .frontend import decorators as _decos5
                        if not ({d_.split(".")[-1] for d_ in _decos5(bm_.node)} & {"property", "cached_property"}):
                            return BoundOp("objmethod", (base, e.attr))      # obj.method taken as a value (key=self.key)
                    elif bm_ is None:
                        cv_ = self._class_const(cis_[0], e.attr, depth)
                        if isinstance(cv_, BoundOp):      # operator.attrgetter / itemgetter / methodcaller objects are not descriptors: no self is bound
                            return cv_                                         # a class-level callable constant (attrgetter(..)) read through the instance
            if isinstance(base, Obj):
                if e.attr not in base.fields and isinstance(e.ctx, ast.Load):
                    # a class-level default (expanding: bool = True) is what an instance without its own value shows
                    for k_ in (self.prog.mro(kk) for kk in self.prog.classes.values() if (kk.fullname == base.full if base.full else kk.name == base.cls)):
                        for cls_ in k_:
                            for st_ in cls_.node.body:
                                tg_ = st_.targets[0] if isinstance(st_, ast.Assign) and len(st_.targets) == 1 else st_.target if isinstance(st_, ast.AnnAssign) else None
                                if isinstance(tg_, ast.Name) and tg_.id == e.attr and getattr(st_, "value", None) is not None \
                                        and isinstance(st_.value, (ast.Constant, ast.List, ast.Tuple, ast.Dict)):
                                    return self.ev(st_.value, {}, depth)
                        break
                if self.strict_attrs and e.attr not in base.fields and isinstance(e.ctx, ast.Load):
                    cands_ = [ci for ci in self.prog.classes.values() if (ci.fullname == base.full if base.full else ci.name == base.cls)]
                    if len(cands_) == 1 and self.prog.lookup_method(cands_[0], e.attr) is None \
                            and not any(e.attr in k.class_attrs for k in self.prog.mro(cands_[0])):
                        self.throw(f"AttributeError: '{base.cls}' object has no attribute '{e.attr}'", e)
                return base.fields.get(e.attr, UNKNOWN)
            if isinstance(base, TypeV):
                v = type_attr(base, e.attr)
                return UNKNOWN if v is None else v
            if isinstance(base, Sym):
                if (base.tag, e.attr) in self.heap:
                    return self.heap[(base.tag, e.attr)]   # attribute of a symbolic object, whatever name it is reached through
                if base.tag == "self" and isinstance(e.ctx, ast.Load) and self.cls is not None and depth < self.max_depth:
                    pm_ = self.prog.lookup_method(self.cls, e.attr)
                    if pm_ is not None and isinstance(pm_.node, ast.FunctionDef) and len(pm_.params) == 1 and pm_ not in self.fn_stack[-3:]:
                        from .frontend import decorators as _decos3
                        if any(d_.split(".")[-1] in ("property", "cached_property") for d_ in _decos3(pm_.node)):
                            cenv_ = {"self": base}
                            for k_, v_ in env.items():
                                if k_.startswith("self."):
                                    cenv_[k_] = v_
                            self.fn_stack.append(pm_)
                            try:
                                return self.call_body(pm_, cenv_, depth + 1)       # a property: reading it runs its getter
                            finally:
                                self.fn_stack.pop()
                if base.tag in ("self", "cls") and isinstance(e.ctx, ast.Load) and self.cls is not None:
                    cv = self._class_const(self.cls, e.attr, depth)    # a class-level constant read through the instance
                    if cv is not None:
                        return cv
                return Sym(f"{base.tag}.{e.attr}")
            if isinstance(e.value, ast.Name) and e.value.id not in env and isinstance(e.ctx, ast.Load) and self.fn_stack:
                full_ = self.prog.resolve_name(self.fn_stack[-1].module, e.value.id)       # ClassName.CONSTANT
                ci_ = self.prog.classes.get(full_) if full_ else None
                if ci_ is not None:
                    cv = self._class_const(ci_, e.attr, depth)
                    if cv is not None:
                        return cv
            return UNKNOWN
        if isinstance(e, ast.UnaryOp) and isinstance(e.op, ast.Not):
            return not self.truthy(self.ev(e.operand, env, depth))
        if isinstance(e, ast.UnaryOp) and isinstance(e.op, ast.Invert):
            v = self.ev(e.operand, env, depth)
            if isinstance(v, Arr) and all(isinstance(x, bool) for x in v):
                return Arr([not x for x in v])        # ~mask
            if isinstance(v, int) and not isinstance(v, bool):
                return ~v
            return UNKNOWN
        if isinstance(e, ast.UnaryOp) and isinstance(e.op, (ast.USub, ast.UAdd)):
            v = self.ev(e.operand, env, depth)
            if isinstance(v, SVal):
                return SVal(-v.sign, v.tag) if isinstance(e.op, ast.USub) else v
            if isinstance(v, (int, float)) and not isinstance(v, bool):
                return -v if isinstance(e.op, ast.USub) else v
            return UNKNOWN
        if isinstance(e, ast.Dict):
            d = {}
            for k, v in zip(e.keys, e.values):
                if k is None:
                    other = self.ev(v, env, depth)          # {**a, **b}: the entries of a, then those of b
                    if not isinstance(other, dict):
                        return UNKNOWN
                    d.update(other)
                    continue
                kv = self.ev(k, env, depth)
                if kv is UNKNOWN:
                    return UNKNOWN
                d[self._hashable(kv)] = self.ev(v, env, depth)
            return d
        if isinstance(e, ast.DictComp):
            if len(e.generators) != 1:
                return UNKNOWN
            g = e.generators[0]
            it = self.ev(g.iter, env, depth)
            if isinstance(it, set):
                it = sorted(it, key=repr)
            elif isinstance(it, dict):
                it = list(it.keys())
            if not isinstance(it, list):
                return UNKNOWN
            d, sub = {}, dict(env)
            for x in it:
                self.assign(g.target, x, sub, e)
                if all(self.truthy(self.ev(c, sub, depth)) for c in g.ifs):
                    k = self.ev(e.key, sub, depth)
                    if k is UNKNOWN:
                        return UNKNOWN
                    d[self._hashable(k)] = self.ev(e.value, sub, depth)
            return d
        if isinstance(e, ast.Set):
            return set(self._hashable(self.ev(x, env, depth)) for x in e.elts)
        if isinstance(e, ast.BoolOp):
            if isinstance(e.op, ast.Or):
                last = False
                for v in e.values:
                    last = self.ev(v, env, depth)
                    if self.truthy(last):
                        return last if isinstance(last, (bool, SVal, SumVal, LocalFn, Sym, dict, list, int, float, str, set, tuple, Obj, TypeV)) else True
                return last if isinstance(last, (SVal, type(None), list, dict, set, tuple, str, int, float)) else False
            last = True
            for v in e.values:
                last = self.ev(v, env, depth)
                if not self.truthy(last):
                    return last if last is None or isinstance(last, (list, dict, set, tuple, str, int, float)) else False
            return last if isinstance(last, (bool, SVal, SumVal, LocalFn, Sym, dict, list, int, float, str, set, tuple, Obj, TypeV)) else True
        if isinstance(e, ast.IfExp):
            return self.ev(e.body if self.truthy(self.ev(e.test, env, depth)) else e.orelse, env, depth)
        if isinstance(e, ast.Compare) and len(e.ops) > 1:
            left = e.left
            for op, rhs in zip(e.ops, e.comparators):
                one = ast.copy_location(ast.Compare(left=left, ops=[op], comparators=[rhs]), e)
                if not self.truthy(self.ev(one, env, depth)):
                    return False
                left = rhs
            return True
        if isinstance(e, ast.Compare) and len(e.ops) == 1:
            l, r = self.ev(e.left, env, depth), self.ev(e.comparators[0], env, depth)
            op = e.ops[0]
            if isinstance(op, (ast.Is, ast.IsNot)):
                if l is UNKNOWN or r is UNKNOWN:
                    return UNKNOWN
                same = (l is r) or (not isinstance(l, (list, dict, set, Obj)) and not isinstance(r, (list, dict, set, Obj)) and l == r)
                return same if isinstance(op, ast.Is) else not same
            if (isinstance(l, Arr) or isinstance(r, Arr)) and isinstance(op, (ast.Lt, ast.LtE, ast.Gt, ast.GtE, ast.Eq, ast.NotEq)):
                # numpy: an array compared with a scalar / an array of the same length is the array of element-wise answers
                import operator as _op
                f_ = {ast.Lt: _op.lt, ast.LtE: _op.le, ast.Gt: _op.gt, ast.GtE: _op.ge, ast.Eq: _op.eq, ast.NotEq: _op.ne}[type(op)]
                ls = list(l) if isinstance(l, Arr) else None
                rs = list(r) if isinstance(r, Arr) else None
                if ls is not None and rs is not None and len(ls) != len(rs):
                    return UNKNOWN
                k_ = len(ls if ls is not None else rs)
                ls = ls if ls is not None else [l] * k_
                rs = rs if rs is not None else [r] * k_
                if all(_is_num(x) for x in ls + rs):
                    return Arr([f_(a_, b_) for a_, b_ in zip(ls, rs)])
                return UNKNOWN
            if isinstance(op, (ast.Eq, ast.NotEq)) and isinstance(l, TypeV) and isinstance(r, TypeV):
                return (l == r) if isinstance(op, ast.Eq) else (l != r)
            if isinstance(op, (ast.Eq, ast.NotEq)) and not (l is UNKNOWN or r is UNKNOWN) and not isinstance(l, Sym) and not isinstance(r, Sym):
                return (l == r) if isinstance(op, ast.Eq) else (l != r)
            if isinstance(op, (ast.Lt, ast.LtE, ast.Gt, ast.GtE)) and _is_num(l) and _is_num(r):
                return {ast.Lt: l < r, ast.LtE: l <= r, ast.Gt: l > r, ast.GtE: l >= r}[type(op)]
            if isinstance(op, (ast.Lt, ast.LtE, ast.Gt, ast.GtE)) and isinstance(l, set) and isinstance(r, set):
                return {ast.Lt: l < r, ast.LtE: l <= r, ast.Gt: l > r, ast.GtE: l >= r}[type(op)]     # subset tests
            if isinstance(op, (ast.In, ast.NotIn)) and isinstance(r, (list, set, dict)) and l is not UNKNOWN:
                key = self._hashable(l) if isinstance(r, (set, dict)) else l
                found = key in r
                if not found and ((isinstance(l, Sym) and l.tag.startswith("elem:")) or (isinstance(r, list) and any(x is UNKNOWN for x in r))):
                    return UNKNOWN   # a symbolic element / a list with unknown members: membership is not decided
                return found if isinstance(op, ast.In) else not found
            return UNKNOWN
        if isinstance(e, (ast.List, ast.Tuple)):
            out = []
            for x in e.elts:
                if isinstance(x, ast.Starred):
                    v = self.ev(x.value, env, depth)
                    out.extend(v if isinstance(v, list) else [UNKNOWN])
                else:
                    out.append(self.ev(x, env, depth))
            return out
        if isinstance(e, ast.BinOp) and isinstance(e.op, (ast.Div, ast.FloorDiv, ast.Mod)):
            l, r = self.ev(e.left, env, depth), self.ev(e.right, env, depth)
            if isinstance(e.op, ast.Mod) and hasattr(l, "model_mod") and isinstance(r, int) and not isinstance(r, bool):
                if r == 0:
                    self.throw("ZeroDivisionError", e)
                if r > 0:
                    return l.model_mod(r)       # a scripted draw: its residue is chosen by the model's script
            if _is_num(l) and _is_num(r):
                if r == 0:
                    self.throw("ZeroDivisionError", e)
                return l / r if isinstance(e.op, ast.Div) else l // r if isinstance(e.op, ast.FloorDiv) else l % r
            return UNKNOWN
        if isinstance(e, ast.BinOp) and isinstance(e.op, ast.Mult):
            l, r = self.ev(e.left, env, depth), self.ev(e.right, env, depth)
            for a, b in ((l, r), (r, l)):
                if isinstance(a, SVal) and isinstance(b, (int, float)) and not isinstance(b, bool) and b != 0:
                    return SVal(a.sign * (1 if b > 0 else -1), a.tag)
            if _is_num(l) and _is_num(r):
                return l * r
            for a, b in ((l, r), (r, l)):
                if isinstance(a, list) and not isinstance(a, Arr) and isinstance(b, int) and not isinstance(b, bool):
                    return [x for _ in range(max(b, 0)) for x in a]    # sequence repetition (the same element objects, as in Python)
                if isinstance(a, str) and isinstance(b, int) and not isinstance(b, bool):
                    return a * b
                if isinstance(a, Arr) and _is_num(b) and all(_is_num(x) for x in a):
                    return Arr([x * b for x in a])
                if isinstance(a, list) and b is UNKNOWN:
                    self.undecided.append("a sequence is repeated an unknown number of times: its length is not followed from here")
            return UNKNOWN
        if isinstance(e, ast.BinOp) and isinstance(e.op, (ast.BitOr, ast.BitAnd, ast.BitXor, ast.Sub)) \
                and isinstance(self.ev(e.left, env, depth), set):
            l, r = self.ev(e.left, env, depth), self.ev(e.right, env, depth)
            if isinstance(r, set):
                return {ast.BitOr: l | r, ast.BitAnd: l & r, ast.BitXor: l ^ r, ast.Sub: l - r}[type(e.op)]
            return UNKNOWN
        if isinstance(e, ast.BinOp) and isinstance(e.op, (ast.Add, ast.Sub)):
            l, r = self.ev(e.left, env, depth), self.ev(e.right, env, depth)
            if isinstance(l, Arr) and _is_num(r) and all(_is_num(x) for x in l):
                return Arr([x + r if isinstance(e.op, ast.Add) else x - r for x in l])
            if isinstance(l, list) and isinstance(r, list) and isinstance(e.op, ast.Add):
                return l + r
            if _is_num(l) and _is_num(r):
                return l + r if isinstance(e.op, ast.Add) else l - r
            return sym_add(l, r, 1 if isinstance(e.op, ast.Add) else -1)
        if isinstance(e, (ast.ListComp, ast.GeneratorExp)):
            return self.comp(e, env, depth)
        if isinstance(e, ast.SetComp):
            r_ = self.comp(e, env, depth)
            return set(self._hashable(x) for x in r_) if isinstance(r_, list) and all(x is not UNKNOWN for x in r_) else UNKNOWN
        if isinstance(e, ast.Subscript) and isinstance(e.slice, ast.Slice):
            base = self.ev(e.value, env, depth)
            lo = self.ev(e.slice.lower, env, depth) if e.slice.lower is not None else None
            hi = self.ev(e.slice.upper, env, depth) if e.slice.upper is not None else None
            st_ = self.ev(e.slice.step, env, depth) if e.slice.step is not None else None
            if isinstance(base, list) and all(x is None or (isinstance(x, int) and not isinstance(x, bool)) for x in (lo, hi, st_)):
                return base[lo:hi:st_]
            return UNKNOWN
        if isinstance(e, ast.Subscript) and not isinstance(e.slice, ast.Slice) and isinstance(self.ev(e.value, env, depth), Arr) \
                and isinstance(self.ev(e.slice, env, depth), Arr):
            base_, mask_ = self.ev(e.value, env, depth), self.ev(e.slice, env, depth)
            if len(base_) == len(mask_) and all(isinstance(x, bool) for x in mask_):
                return Arr([x for x, k_ in zip(base_, mask_) if k_])       # boolean-mask indexing
            return UNKNOWN
        if isinstance(e, ast.Subscript):
            base = self.ev(e.value, env, depth)
            idx = self.ev(e.slice, env, depth) if not isinstance(e.slice, ast.Slice) else UNKNOWN
            if isinstance(base, list) and isinstance(idx, int) and not isinstance(idx, bool) and -len(base) <= idx < len(base):
                return base[idx]
            if isinstance(base, list) and isinstance(idx, int) and not isinstance(idx, bool) and self.strict_index \
                    and all(x is not UNKNOWN for x in base):
                self.throw(f"IndexError: index {idx} of a list of length {len(base)}", e)
            if isinstance(base, DDict) and idx is not UNKNOWN:
                k_ = self._hashable(idx)
                if k_ not in base:
                    base[k_] = base.factory()
                return base[k_]
            if isinstance(base, ObjDict) and idx is not UNKNOWN and self._hashable(idx) not in base and depth < self.max_depth:
                ci_ = self.prog.classes.get(base.full) if base.full else None
                ms_ = self.prog.lookup_method(ci_, "__missing__") if ci_ is not None else None
                if ms_ is not None and isinstance(ms_.node, ast.FunctionDef) and len(ms_.params) == 2 and ms_ not in self.fn_stack[-3:]:
                    self.fn_stack.append(ms_)
                    saved_cls_ = self.cls
                    self.cls = ci_
                    try:
                        return self.call_body(ms_, {ms_.params[0]: base, ms_.params[1]: idx}, depth + 1)     # dict.__getitem__ falls back to __missing__
                    finally:
                        self.fn_stack.pop()
                        self.cls = saved_cls_
            if isinstance(base, dict) and idx is not UNKNOWN:
                if self.strict_keys and self._hashable(idx) not in base:
                    self.throw(f"KeyError: {self._hashable(idx)}", e)
                return base.get(self._hashable(idx), UNKNOWN)
            if isinstance(base, Obj) and isinstance(idx, int) and not isinstance(idx, bool) and 0 <= idx < len(base.fields):
                return list(base.fields.values())[idx]
            if isinstance(base, Sym):
                return Sym(f"{base.tag}[{norm(e.slice)[:12]}]")
            return UNKNOWN
        if isinstance(e, ast.Call):
            return self.call(e, env, depth)
        if isinstance(e, ast.JoinedStr):
            parts = []
            for v in e.values:
                if isinstance(v, ast.Constant):
                    parts.append(str(v.value))
                elif isinstance(v, ast.FormattedValue) and v.format_spec is None and v.conversion == -1:
                    x = self.ev(v.value, env, depth)
                    if isinstance(x, (str, int)) and not isinstance(x, bool):
                        parts.append(str(x))
                    else:
                        return UNKNOWN
                else:
                    return UNKNOWN
            return "".join(parts)
        if isinstance(e, ast.Lambda):
            return LocalFn(e, env, self.fn_stack[-1] if self.fn_stack else None, self._defaults(e, env, depth))
        return UNKNOWN

    def comp(self, e: ast.AST, env: dict, depth: int) -> Any:
        out: list = []
        ok = [True]

        def rec(i: int, sub: dict) -> None:
            if i == len(e.generators):
                out.append(self.ev(e.elt, sub, depth))
                return
            g = e.generators[i]
            it = self.ev(g.iter, sub, depth)
            if isinstance(it, dict):
                it = list(it.keys())
            if isinstance(it, set):
                it = sorted(it, key=repr)
            if not isinstance(it, list) and isinstance(g.iter, ast.Call) and call_name(g.iter) == "range" and not self.strict_iter and not g.ifs:
                it = [Sym(f"elem:{norm(g.iter)[:30]}")]      # a count the model does not know: one representative iteration, as in a for loop
            if not isinstance(it, list):
                ok[0] = False
                return
            for x in _take(it):
                s2 = dict(sub)
                self.assign(g.target, x, s2, e)
                if all(self.truthy(self.ev(c, s2, depth)) for c in g.ifs):
                    rec(i + 1, s2)

        rec(0, dict(env))
        if isinstance(e, ast.GeneratorExp) and ok[0]:
            return GenList(out)
        return out if ok[0] else UNKNOWN

    def call(self, c: ast.Call, env: dict, depth: int) -> Any:
        nm = call_name(c)
        args = []
        for a in c.args:
            if isinstance(a, ast.Starred):
                v_ = self.ev(a.value, env, depth)
                if isinstance(v_, list):
                    args.extend(v_)
                else:
                    args.append(UNKNOWN)
            else:
                args.append(self.ev(a, env, depth))
        kwargs = {k.arg: self.ev(k.value, env, depth) for k in c.keywords if k.arg}
        for k in c.keywords:
            if k.arg is None:
                m_ = self.ev(k.value, env, depth)         # f(**mapping)
                if isinstance(m_, dict) and all(isinstance(x_, str) for x_ in m_):
                    for x_, v_ in m_.items():
                        kwargs.setdefault(x_, v_)
                else:
                    self.undecided.append("keyword arguments unpacked from a mapping the model does not hold: the call's arguments are not followed")
        if self.call_model is not None:
            r = self.call_model(self, c, env, args, kwargs)
            if r is not None:
                return None if r is _NONE else r
        if nm in self.record_calls:
            recv = self.ev(c.func.value, env, depth) if isinstance(c.func, ast.Attribute) else None
            self.trace.append(Effect("call", nm, tuple(args), kwargs, node=c, fn=self.fn_stack[-1], recv=recv))
        if isinstance(c.func, (ast.Subscript, ast.IfExp, ast.Call)) and not c.keywords and not any(isinstance(a, ast.Starred) for a in c.args):
            # the callee is looked up in a table / chosen by a condition (TABLE[flag](x), (min if flag else max)(xs)): evaluate it, then call the value
            fv_ = self.ev(c.func, env, depth)
            if isinstance(fv_, Sym) and fv_.tag.startswith(("builtin:", "operator.")):
                tmp_ = "__callee%d" % len(env)
                env[tmp_] = fv_
                for i_, a_ in enumerate(args):
                    env[f"{tmp_}_a{i_}"] = a_
                fake = ast.copy_location(ast.Call(func=ast.Name(id=tmp_, ctx=ast.Load()),
                                                  args=[ast.Name(id=f"{tmp_}_a{i_}", ctx=ast.Load()) for i_ in range(len(args))], keywords=[]), c)
                try:
                    return self.call(ast.fix_missing_locations(fake), env, depth)
                finally:
                    env.pop(tmp_, None)
                    for i_ in range(len(args)):
                        env.pop(f"{tmp_}_a{i_}", None)
            if isinstance(fv_, (LocalFn, BoundOp)):
                return self.apply(fv_, args, env, depth)
            if isinstance(fv_, Sym) and fv_.tag.count(".") == 1 and fv_.tag.split(".")[0] in env and not any(ch in fv_.tag for ch in "([ :~"):
                return self.apply(fv_, args, env, depth)       # a bound method kept in a table: table[name](x)
            if isinstance(c.func, ast.Call) and fv_ is UNKNOWN:
                self.undecided.append(f"the callee of '{norm(c)[:50]}' is the result of a call the model does not follow")
        # a local name bound to a builtin function / an operator-module function
        alias = env.get(c.func.id) if isinstance(c.func, ast.Name) else None
        if isinstance(alias, Sym) and alias.tag.startswith("builtin:"):
            fake = ast.copy_location(ast.Call(func=ast.Name(id=alias.tag[8:], ctx=ast.Load()), args=c.args, keywords=c.keywords), c)
            saved = env.pop(c.func.id)
            try:
                return self.call(fake, env, depth)
            finally:
                env[c.func.id] = saved
        opname = None
        if alias is None and isinstance(c.func, ast.Name) and c.func.id not in env and self.fn_stack:
            g_ = self._module_global(c.func.id, depth)
            if isinstance(g_, Sym) and g_.tag.startswith("operator."):
                alias = g_
            elif isinstance(g_, BoundOp) and not kwargs:
                return self.apply(g_, args, env, depth)       # NAME = attrgetter("x") at module level; NAME(obj)
        if isinstance(alias, Sym) and alias.tag.startswith("operator.") and alias.tag[9:] in _ARITH_OPS and len(args) == _ARITH_OPS[alias.tag[9:]][1]:
            return self.apply(alias, args, env, depth)
        if isinstance(alias, Sym) and alias.tag.startswith("operator."):
            opname = alias.tag[9:]
        elif isinstance(c.func, ast.Attribute) and isinstance(c.func.value, ast.Name) and c.func.value.id == "operator":
            opname = c.func.attr
        if opname in ("le", "ge", "lt", "gt", "eq", "ne") and len(args) == 2 and all(_is_num(a) for a in args):
            import operator as _op
            return getattr(_op, opname)(args[0], args[1])
        if opname in ("methodcaller", "attrgetter", "itemgetter") and args and (opname != "methodcaller" or isinstance(args[0], str)):
            return BoundOp(opname, list(args))
        if opname in ("getitem", "contains") and len(args) == 2:
            return self.apply(BoundOp("__getitem__" if opname == "getitem" else "__contains__", args[0]), [args[1]], env, depth)
        if isinstance(c.func, ast.Name) and isinstance(env.get(c.func.id), BoundOp):
            return self.apply(env[c.func.id], args, env, depth)
        if isinstance(c.func, ast.Attribute) and isinstance(c.func.value, ast.Name) and c.func.value.id == "self" and self.cls is not None \
                and self.prog.lookup_method(self.cls, c.func.attr) is None:
            cv_ = self._class_const(self.cls, c.func.attr, depth)          # a class-level callable constant (KEY = attrgetter(...)) called through self
            if isinstance(cv_, BoundOp):
                return self.apply(cv_, args, env, depth)
        if isinstance(c.func, ast.Attribute) and isinstance(c.func.value, ast.Name) and c.func.value.id not in env and c.func.value.id != "self" and self.fn_stack:
            full_ = self.prog.resolve_name(self.fn_stack[-1].module, c.func.value.id)
            ci_ = self.prog.classes.get(full_) if full_ else None
            if ci_ is not None and self.prog.lookup_method(ci_, c.func.attr) is None:
                cv_ = self._class_const(ci_, c.func.attr, depth)           # ... or through the class name
                if isinstance(cv_, BoundOp):
                    return self.apply(cv_, args, env, depth)
        if isinstance(c.func, ast.Name) and isinstance(env.get(c.func.id), Sym) and env[c.func.id].tag.startswith("class:"):
            return self.apply(env[c.func.id], args, env, depth)
        # calling a value: a local function (closure) or a symbolic callable
        fval = None
        if isinstance(c.func, ast.Name) and isinstance(env.get(c.func.id), (LocalFn, Sym)):
            fval = env[c.func.id]
        elif isinstance(c.func, ast.Subscript):
            fval = self.ev(c.func, env, depth)
        elif isinstance(c.func, ast.Attribute) and _path(c.func) is not None and isinstance(env.get(_path(c.func)), (LocalFn, Sym)):
            fval = env[_path(c.func)]     # a callable stored in an attribute (self.callable(...))
        if isinstance(fval, LocalFn) and depth < self.max_depth:
            return self.call_local(fval, args, kwargs, depth, env)
        if isinstance(fval, Sym) and isinstance(c.func, (ast.Name, ast.Subscript)) and "." in fval.tag and not any(ch in fval.tag for ch in "([ :") \
                and not getattr(self, "_redispatch", False):
            # a bound method kept in a local name (distance = grammar.get_distance_to_terminal; distance(x)): call it on its object
            base_tag, attr_ = fval.tag.rsplit(".", 1)
            env2 = dict(env)
            env2["__recv"] = Sym(base_tag)
            names_ = []
            for i_, a_ in enumerate(args):
                env2[f"__a{i_}"] = a_
                names_.append(ast.Name(id=f"__a{i_}", ctx=ast.Load()))
            kws_ = []
            for k_, v_ in kwargs.items():
                env2[f"__k_{k_}"] = v_
                kws_.append(ast.keyword(arg=k_, value=ast.Name(id=f"__k_{k_}", ctx=ast.Load())))
            fake = ast.copy_location(ast.Call(func=ast.Attribute(value=ast.Name(id="__recv", ctx=ast.Load()), attr=attr_, ctx=ast.Load()),
                                              args=names_, keywords=kws_), c)
            ast.fix_missing_locations(fake)
            self._redispatch = True
            try:
                r_ = self.call(fake, env2, depth)
            finally:
                self._redispatch = False
            if not (isinstance(r_, Sym) and r_.tag.endswith("()")) and r_ is not UNKNOWN:
                return r_
        if isinstance(fval, Sym):
            self.trace.append(Effect("callsym", fval.tag, tuple(args), kwargs, node=c, fn=self.fn_stack[-1]))
            if self.sym_result is not None:
                return self.sym_result(fval, args)
            return Sym(f"{fval.tag}()")
        if fval is None and isinstance(c.func, ast.Subscript):
            pass
        if isinstance(c.func, ast.Attribute) and nm in ("split", "strip", "lower", "upper", "startswith", "endswith", "join", "replace"):
            base_s = self.ev(c.func.value, env, depth)
            if isinstance(base_s, str) and all(isinstance(a, (str, int)) for a in args) and not kwargs:
                if nm == "join":
                    pass
                else:
                    try:
                        r_ = getattr(base_s, nm)(*args)
                        return list(r_) if isinstance(r_, (list, tuple)) else r_
                    except Exception:
                        return UNKNOWN
            if isinstance(base_s, str) and nm == "join" and len(args) == 1 and isinstance(args[0], list) and all(isinstance(x, str) for x in args[0]):
                return base_s.join(args[0])
        if isinstance(c.func, ast.Attribute) and nm in ("values", "keys", "items", "get", "add", "discard", "update", "setdefault") :
            base = self.ev(c.func.value, env, depth)
            if isinstance(base, dict) and nm == "setdefault" and args and args[0] is not UNKNOWN:
                k_ = self._hashable(args[0])
                if k_ not in base:
                    base[k_] = args[1] if len(args) > 1 else None
                return base[k_]
            if isinstance(base, dict):
                if nm == "values":
                    return list(base.values())
                if nm == "keys":
                    return list(base.keys())
                if nm == "items":
                    return [[k, v] for k, v in base.items()]
                if nm == "get" and args:
                    return base.get(self._hashable(args[0]), args[1] if len(args) > 1 else None)

        if isinstance(c.func, ast.Name):
            if nm in ("all", "any") and len(args) == 1 and isinstance(args[0], list):
                vals = [self.truthy(v) for v in args[0]]
                return all(vals) if nm == "all" else any(vals)
            if nm == "len" and len(args) == 1 and isinstance(args[0], (list, set, dict)):
                return len(args[0])
            if nm == "defaultdict" and nm not in env and len(args) <= 2 and not kwargs and (len(args) < 2 or isinstance(args[1], dict)):
                d_ = DDict(args[1]) if len(args) == 2 else DDict()          # defaultdict(factory, initial mapping)
                f_ = args[0] if args else None
                if isinstance(f_, LocalFn):
                    d_.factory = (lambda f_=f_, env=env, depth=depth: self.call_local(f_, [], {}, depth, env))
                elif isinstance(f_, TypeV) and f_.kind == "builtin" and f_.name in ("list", "set", "dict", "int", "float"):
                    d_.factory = {"list": list, "set": set, "dict": dict, "int": int, "float": float}[f_.name]
                elif f_ is not None:
                    return UNKNOWN
                return d_
            if nm == "fromkeys" and False:
                pass
            if nm == "isclose" and len(args) == 2 and all(_is_num(a) for a in args) and nm not in env \
                    and all(_is_num(v) for v in kwargs.values()) and set(kwargs) <= {"rel_tol", "abs_tol"}:
                import math as _m
                return _m.isclose(float(args[0]), float(args[1]), **{k: float(v) for k, v in kwargs.items()})
            if nm == "chain" and nm not in env and all(isinstance(a, (list, set, dict)) for a in args):
                out_ = []
                for a in args:
                    out_ += list(a.keys()) if isinstance(a, dict) else (sorted(a, key=repr) if isinstance(a, set) else list(a))
                return out_
            if nm in ("methodcaller", "attrgetter", "itemgetter") and nm not in env and args and not kwargs and (nm != "methodcaller" or isinstance(args[0], str)):
                return BoundOp(nm, list(args))
            if nm == "map" and len(args) >= 3 and all(isinstance(a_, list) for a_ in args[1:]) and nm not in env:
                return [self.apply(args[0], list(xs), env, depth) for xs in zip(*args[1:])]
            if nm == "map" and len(args) == 2 and isinstance(args[1], (list, set)) and nm not in env:
                return [self.apply(args[0], [x], env, depth) for x in (args[1] if isinstance(args[1], list) else sorted(args[1], key=repr))]
            if nm == "filter" and len(args) == 2 and isinstance(args[1], list) and nm not in env and args[0] is not None:
                return [x for x in args[1] if self.truthy(self.apply(args[0], [x], env, depth))]
            if nm == "type" and len(args) == 1 and nm not in env and not kwargs:
                v_ = args[0]
                for py_, name_ in ((bool, "bool"), (int, "int"), (float, "float"), (str, "str"), (dict, "dict"), (set, "set")):
                    if type(v_) is py_:
                        return BUILTIN_TYPES[name_]
                if type(v_) is list:
                    return BUILTIN_TYPES["list"]
                if isinstance(v_, SVal):
                    return BUILTIN_TYPES["float"]       # a symbolic number of the model: what a fitness function returns
            if nm == "id" and len(args) == 1 and nm not in env and isinstance(args[0], (Sym, Obj)):
                # the identity of a model object: a token that is equal exactly for the same object
                return Sym("id:" + args[0].tag) if isinstance(args[0], Sym) else Sym(f"id:obj{id(args[0])}")
            if nm == "vars" and len(args) == 1 and isinstance(args[0], Obj) and nm not in env:
                return args[0].fields          # vars(obj) is obj.__dict__
            if nm == "reversed" and len(args) == 1 and isinstance(args[0], list):
                return list(reversed(args[0]))
            if nm == "sorted" and len(args) == 1 and isinstance(args[0], list) and kwargs.get("key") is None:
                if all(_is_num(x) for x in args[0]):
                    return sorted(args[0], reverse=kwargs.get("reverse") is True)
                return list(args[0]) if len(args[0]) <= 1 else UNKNOWN
            if nm in ("list", "tuple", "iter") and len(args) >= 1 and isinstance(args[0], list):
                return list(args[0])
            if nm in ("list", "tuple", "iter", "sorted") and len(args) == 1 and isinstance(args[0], dict) and not kwargs:
                return list(args[0].keys())
            if nm in ("list", "tuple") and len(args) == 1 and isinstance(args[0], set):
                return sorted(args[0], key=repr)
            if nm == "bool" and len(args) == 1:
                return self.truthy(args[0])
            if nm in ("max", "min", "sorted") and len(args) == 1 and isinstance(args[0], list) and kwargs.get("key") is not None:
                keys = [self.apply(kwargs["key"], [x], env, depth) for x in args[0]]
                if args[0] and all(isinstance(k, str) for k in keys):
                    keys = [(k,) for k in keys]            # text keys (key=str / repr / a name): ordered as text
                    order = sorted(range(len(keys)), key=lambda i: keys[i], reverse=kwargs.get("reverse") is True)
                    if nm == "sorted":
                        return [args[0][i] for i in order]
                    return args[0][order[-1] if nm == "max" else order[0]]
                if args[0] and all(_is_num(k) for k in keys):
                    pairs = list(zip(keys, range(len(keys))))
                    if nm == "sorted":
                        rev = kwargs.get("reverse") is True
                        order = sorted(range(len(keys)), key=lambda i: keys[i], reverse=rev)
                        return [args[0][i] for i in order]
                    best = (max if nm == "max" else min)(range(len(keys)), key=lambda i: keys[i])
                    return args[0][best]
                return UNKNOWN
            if nm in ("max", "min") and args:
                items = args[0] if len(args) == 1 and isinstance(args[0], list) else args if len(args) > 1 else None
                if items and all(_is_num(x) for x in items):
                    return max(items) if nm == "max" else min(items)
                if items and all(_lin(x) is not None for x in items):
                    ls = [_lin(x) for x in items]
                    return ls[0] if len(ls) == 1 else MaxV(nm, tuple(ls), 0)
                if items and all(_lin(x) is not None or (isinstance(x, MaxV) and x.kind == nm and _lin(x.offset) is not None and _lin(x.offset).is_const()
                                                         and _lin(x.offset).const == 0) for x in items):
                    flat = []
                    for x in items:
                        flat += list(x.items) if isinstance(x, MaxV) else [_lin(x)]
                    return MaxV(nm, tuple(flat), 0)
                return UNKNOWN
            if nm in ("float", "int") and len(args) == 1 and isinstance(args[0], bool):
                return int(args[0])
            if nm == "int" and len(args) == 1 and isinstance(args[0], float):
                return int(args[0])
            if nm == "float" and len(args) == 1 and isinstance(args[0], str) and args[0].strip().lower().lstrip("+-") in ("inf", "infinity", "nan"):
                return float(args[0])
            if nm in ("float", "int") and len(args) == 1 and isinstance(args[0], (SVal, int, float)):
                return args[0]
            if nm == "sum" and len(args) == 1 and isinstance(args[0], list) and args[0] and all(isinstance(x, SVal) for x in args[0]):
                return SumVal(tuple(args[0]))
            if nm == "sum" and len(args) == 1 and isinstance(args[0], list) and all(_is_num(x) for x in args[0]):
                return sum(args[0])
            if nm == "sum" and len(args) == 1 and isinstance(args[0], list) and all(_lin(x) is not None for x in args[0]):
                tot = _lin(0)
                for x in args[0]:
                    tot = tot + _lin(x)
                return tot
            if nm == "round" and 1 <= len(args) <= 2 and _is_num(args[0]) and (len(args) == 1 or isinstance(args[1], int)):
                return round(*args)
            if nm == "abs" and len(args) == 1 and _is_num(args[0]):
                return abs(args[0])
            if nm in ("nlargest", "nsmallest") and len(args) == 2 and isinstance(args[0], int) and isinstance(args[1], list) and kwargs.get("key") is None \
                    and all(_is_num(x) for x in args[1]):
                return sorted(args[1], reverse=(nm == "nlargest"))[:args[0]]
            if nm in ("nlargest", "nsmallest") and len(args) == 2 and isinstance(args[0], int) and isinstance(args[1], list) and kwargs.get("key") is not None:
                keys = [self.apply(kwargs["key"], [x], env, depth) for x in args[1]]
                if all(_is_num(k) for k in keys):
                    order = sorted(range(len(keys)), key=lambda i: keys[i], reverse=(nm == "nlargest"))
                    return [args[1][i] for i in order[:args[0]]]
                return UNKNOWN
            if nm == "id" and len(args) == 1 and isinstance(args[0], Sym):
                return "id:" + args[0].tag
            if nm == "accumulate" and len(args) == 1 and isinstance(args[0], list) and all(_is_num(x) for x in args[0]) \
                    and set(kwargs) <= {"initial"} and (not kwargs or _is_num(kwargs["initial"]) or kwargs["initial"] is None):
                init_ = kwargs.get("initial")
                acc_, res_ = (init_ if init_ is not None else 0), ([init_] if init_ is not None else [])
                for x in args[0]:
                    acc_ = acc_ + x
                    res_.append(acc_)
                return res_
            if nm == "accumulate" and len(args) == 2 and isinstance(args[0], list) and not kwargs and nm not in env:
                # accumulate(xs, f): running application of f
                res_ = []
                for i_, x in enumerate(args[0]):
                    if i_ == 0:
                        acc_ = x
                    elif isinstance(args[1], TypeV) and args[1].kind == "builtin":
                        acc_ = UNKNOWN
                    else:
                        acc_ = self.apply(args[1], [acc_, x], env, depth)
                    res_.append(acc_)
                return res_
            if nm == "setattr" and len(args) == 3 and isinstance(args[1], str) and args[1].isidentifier() and "setattr" not in env and len(c.args) == 3:
                # setattr(obj, "name", value) is obj.name = value
                tgt_ = ast.copy_location(ast.Attribute(value=c.args[0], attr=args[1], ctx=ast.Store()), c)
                self.assign(tgt_, args[2], env, c)
                return None
            if nm == "deque" and len(args) <= 1:
                return list(args[0]) if args and isinstance(args[0], list) else [] if not args else UNKNOWN
            if nm in ("list", "tuple") and not args and not kwargs:
                return []
            if nm in ("set", "dict") and not args:
                return set() if nm == "set" else {}
            if nm == "dict" and len(args) == 1 and isinstance(args[0], list) and not kwargs and "dict" not in env \
                    and all(isinstance(x_, (list, tuple)) and len(x_) == 2 for x_ in args[0]):
                return {self._hashable(k_): v_ for k_, v_ in args[0]}
            if nm == "dict" and len(args) == 1 and isinstance(args[0], dict) and not kwargs and "dict" not in env:
                d_ = DDict(args[0]) if isinstance(args[0], DDict) else dict(args[0])      # shallow: the values stay shared
                if isinstance(args[0], DDict):
                    d_.factory = args[0].factory
                return d_
            if nm in ("set", "frozenset") and len(args) == 1 and isinstance(args[0], list) and nm not in env:
                return set(self._hashable(x) for x in args[0])
            if nm in ("set", "frozenset") and len(args) == 1 and isinstance(args[0], (set, dict)) and nm not in env:
                return set(args[0])            # a copy (the model does not distinguish a frozen set: it is never mutated in place)
            if nm == "frozenset" and not args and nm not in env:
                return set()
            if nm == "isinstance" and len(c.args) == 2:
                return _isinstance(args[0], c.args[1])
            if nm == "hasattr" and len(args) == 2 and isinstance(args[1], str):
                if isinstance(args[0], TypeV):
                    return type_attr(args[0], args[1]) is not None
                if isinstance(args[0], Obj):
                    return args[1] in args[0].fields
                return UNKNOWN
            if nm == "getattr" and 2 <= len(args) <= 3 and isinstance(args[1], str) and nm not in env:
                o_, a_ = args[0], args[1]
                if isinstance(o_, TypeV):
                    v_ = type_attr(o_, a_)
                    if v_ is None:
                        if len(args) == 3:
                            return args[2]
                        self.throw(f"AttributeError: type has no attribute '{a_}'", c)
                    return v_
                if isinstance(o_, Obj):
                    if a_ in o_.fields:
                        return o_.fields[a_]
                    fake_ = ast.copy_location(ast.Attribute(value=c.args[0], attr=a_, ctx=ast.Load()), c)
                    v_ = self.ev(ast.fix_missing_locations(fake_), env, depth)
                    if v_ is UNKNOWN and len(args) == 3 and not self.strict_attrs:
                        return UNKNOWN
                    return v_
                if isinstance(o_, Sym) and (o_.tag, a_) in self.heap:
                    return self.heap[(o_.tag, a_)]
            if nm == "object" and not args and not kwargs and nm not in env:
                self._sentinels = getattr(self, "_sentinels", 0) + 1
                return Sym(f"sentinel:{getattr(c, 'lineno', 0)}:{getattr(c, 'col_offset', 0)}")      # object(): a unique marker (one per creation site)
            if nm == "get_origin" and len(args) == 1 and isinstance(args[0], TypeV):
                t_ = args[0]
                return {"list": BUILTIN_TYPES["list"], "tuple": BUILTIN_TYPES["tuple"], "union": TYPING_UNION,
                        "annotated": TYPING_ANNOTATED}.get(t_.kind)
            if nm == "range" and 1 <= len(args) <= 3 and all(isinstance(a, int) and not isinstance(a, bool) for a in args) \
                    and (len(args) < 3 or args[2] != 0) and len(range(*args)) <= self.range_cap:
                return list(range(*args))
            if nm == "partial" and args and nm not in env and isinstance(args[0], (LocalFn, Sym, BoundOp)):
                return BoundOp("partial", (args[0], list(args[1:]), dict(kwargs)))
            if nm == "compress" and len(args) == 2 and all(isinstance(a_, list) for a_ in args) and nm not in env:
                sel_ = [self.truthy(x_) if not isinstance(x_, bool) else x_ for x_ in args[1]]
                return [d_ for d_, s_ in zip(args[0], sel_) if s_]
            if nm in ("bisect_right", "bisect_left", "bisect") and len(args) == 2 and isinstance(args[0], list) and all(_is_num(x_) for x_ in args[0]) and _is_num(args[1]) \
                    and nm not in env:
                import bisect as _bs
                return (_bs.bisect_left if nm == "bisect_left" else _bs.bisect_right)(args[0], args[1])
            if nm == "reduce" and 2 <= len(args) <= 3 and isinstance(args[1], list) and nm not in env:
                seq_ = list(args[1])
                if len(args) == 3:
                    acc_ = args[2]
                elif seq_:
                    acc_, seq_ = seq_[0], seq_[1:]
                else:
                    self.throw("TypeError: reduce() of empty iterable with no initial value", c)
                for x_ in seq_:
                    acc_ = self.apply(args[0], [acc_, x_], env, depth)
                return acc_
            if nm == "repeat" and 1 <= len(args) <= 2 and nm not in env and (len(args) == 1 or (isinstance(args[1], int) and 0 <= args[1] <= 64)):
                # itertools.repeat(x[, n]): the unbounded form is only ever consumed next to a finite sequence (zip, map with two iterables)
                return [args[0]] * (args[1] if len(args) == 2 else 64)
            if nm == "pairwise" and len(args) == 1 and isinstance(args[0], list) and nm not in env:
                return [[a_, b_] for a_, b_ in zip(args[0], args[0][1:])]
            if nm == "next" and 1 <= len(args) <= 2 and isinstance(args[0], list):
                if args[0]:
                    return args[0][0]
                if len(args) == 2:
                    return args[1]
                self.throw("StopIteration", c)
            if nm == "tuple" and len(args) == 1 and isinstance(args[0], list):
                return list(args[0])
            # a repository dataclass: an object with fields
            if c.func.id not in env and self.fn_stack:
                full = self.prog.resolve_name(self.fn_stack[-1].module, c.func.id)
                ci = self.prog.classes.get(full) if full else None
                if ci is not None and _is_dataclass(ci):
                    names = _dataclass_fields(self.prog, ci)
                    fields = {n_: UNKNOWN for n_ in names}
                    for n_, v in zip(names, args):
                        fields[n_] = v
                    for k, v in kwargs.items():
                        fields[k] = v
                    o = Obj(ci.name, fields, ci.fullname)
                    if ci.name in self.record_calls:
                        pass
                    return o
                if ci is not None and depth < self.max_depth and any(isinstance(b_, ast.Name) and b_.id == "dict" for b_ in ci.node.bases) \
                        and len(ci.node.bases) == 1:
                    # a table class (class T(dict)): a dict with the attributes its constructor sets
                    od_ = ObjDict(ci.name, {}, ci.fullname)
                    init_ = ci.methods.get("__init__")
                    if init_ is not None:
                        a_ = init_.node.args
                        names_ = [x.arg for x in a_.posonlyargs + a_.args]
                        cenv_ = {names_[0]: od_}
                        for p_, d_ in zip(names_[len(names_) - len(a_.defaults):], a_.defaults):
                            cenv_[p_] = self.ev(d_, {}, depth)
                        for p_, v_ in zip(names_[1:], args):
                            cenv_[p_] = v_
                        cenv_.update(kwargs)
                        self.fn_stack.append(init_)
                        saved_cls_ = self.cls
                        self.cls = ci
                        try:
                            self.call_body(init_, cenv_, depth + 1)
                        finally:
                            self.fn_stack.pop()
                            self.cls = saved_cls_
                    elif len(args) == 1 and isinstance(args[0], dict):
                        od_.update(args[0])
                    return od_
                # a plain helper class of the repository with its own __init__: an object whose fields the constructor sets
                if ci is not None and self.instantiate_classes and depth < self.max_depth and "__init__" in ci.methods \
                        and not any(b.name.endswith(("Exception", "Error")) for b in self.prog.mro(ci)) \
                        and all(k.fullname == ci.fullname or "__init__" not in k.methods for k in self.prog.mro(ci)):
                    target = ci.methods["__init__"]
                    o = Obj(ci.name, {}, ci.fullname)
                    a = target.node.args
                    names = [x.arg for x in a.posonlyargs + a.args]
                    cenv = {names[0]: o}
                    for p_, d in zip(names[len(names) - len(a.defaults):], a.defaults):
                        cenv[p_] = self.ev(d, {}, depth)
                    for p_, v in zip(names[1:], args):
                        cenv[p_] = v
                    for k, v in kwargs.items():
                        cenv[k] = v
                    self._bind_star(target.node, cenv, kwargs)
                    self.fn_stack.append(target)
                    try:
                        self.call_body(target, cenv, depth + 1)
                    finally:
                        self.fn_stack.pop()
                    return o
            if nm == "enumerate" and args and isinstance(args[0], list):
                return [[i, x] for i, x in enumerate(args[0])]
            if nm == "zip" and all(isinstance(a, list) for a in args) and args:
                return [list(t) for t in zip(*args)]
        if isinstance(c.func, ast.Attribute) and nm == "from_iterable" and len(args) == 1 and isinstance(args[0], list) \
                and all(isinstance(a, (list, set, dict)) for a in args[0]):
            out_ = []
            for a in args[0]:
                out_ += list(a.keys()) if isinstance(a, dict) else (sorted(a, key=repr) if isinstance(a, set) else list(a))
            return out_
        if isinstance(c.func, ast.Attribute) and isinstance(c.func.value, ast.Name) and c.func.value.id == "dict" and nm == "fromkeys" \
                and "dict" not in env and 1 <= len(args) <= 2 and isinstance(args[0], (list, set, dict)):
            keys_ = list(args[0].keys()) if isinstance(args[0], dict) else (sorted(args[0], key=repr) if isinstance(args[0], set) else args[0])
            return {self._hashable(k): (args[1] if len(args) > 1 else None) for k in keys_}
        if isinstance(c.func, ast.Attribute) and isinstance(c.func.value, ast.Name) and c.func.value.id in ("heapq", "math", "itertools") \
                and c.func.value.id not in env:
            fake = ast.copy_location(ast.Call(func=ast.Name(id=nm, ctx=ast.Load()), args=c.args, keywords=c.keywords), c)
            return self.call(fake, env, depth)
        # methods of a modelled dataclass instance: inlined with self = that object
        if isinstance(c.func, ast.Attribute) and depth < self.max_depth:
            recv_v = self.ev(c.func.value, env, depth) if not (isinstance(c.func.value, ast.Name) and c.func.value.id == "self"
                                                               and not isinstance(env.get("self"), Obj)) else None
            if isinstance(recv_v, Obj):
                cands = [ci for ci in self.prog.classes.values() if (ci.fullname == recv_v.full if recv_v.full else ci.name == recv_v.cls)]
                target = self.prog.lookup_method(cands[0], nm) if len(cands) == 1 else None
                if target is None and len(cands) == 1 and nm not in recv_v.fields and not kwargs:
                    cv_ = self._class_const(cands[0], nm, depth)
                    if isinstance(cv_, BoundOp):      # operator.attrgetter / itemgetter / methodcaller objects are not descriptors: no self is bound
                        return self.apply(cv_, list(args), env, depth)      # self.aggregate_of(x): a class-level attrgetter / lambda called through the instance
                if target is not None and isinstance(target.node, (ast.FunctionDef, ast.AsyncFunctionDef)) \
                        and (target not in self.fn_stack[-3:] or self.allow_recursion):
                    a = target.node.args
                    names = [x.arg for x in a.posonlyargs + a.args]
                    from .frontend import decorators as _decos2
                    static_ = any(d.split(".")[-1] == "staticmethod" for d in _decos2(target.node))
                    cenv = {names[0]: recv_v} if names and not static_ else {}
                    for p_, d in zip(names[len(names) - len(a.defaults):], a.defaults):
                        cenv[p_] = self.ev(d, {}, depth)
                    for p_, v in zip(names if static_ else names[1:], args):
                        cenv[p_] = v
                    for k, v in kwargs.items():
                        cenv[k] = v
                    self._bind_star(target.node, cenv, kwargs)
                    self.fn_stack.append(target)
                    saved_cls = self.cls
                    self.cls = cands[0]        # self.m() / super().m() inside the method resolve through the object's class
                    try:
                        return self.call_body(target, cenv, depth + 1)
                    finally:
                        self.fn_stack.pop()
                        self.cls = saved_cls
        # module-level helper functions of the repository: inlined
        if isinstance(c.func, ast.Name) and c.func.id not in env and depth < self.max_depth and self.fn_stack:
            full = self.prog.resolve_name(self.fn_stack[-1].module, c.func.id)
            target = self.prog.functions.get(full) if full else None
            if target is not None and target.cls is None and target.parent is None and (target not in self.fn_stack[-3:] or self.allow_recursion) \
                    and isinstance(target.node, (ast.FunctionDef, ast.AsyncFunctionDef)):
                a = target.node.args
                names = [x.arg for x in a.posonlyargs + a.args]
                cenv = {}
                self.fn_stack.append(target)
                try:
                    for p_, d in zip(names[len(names) - len(a.defaults):], a.defaults):
                        cenv[p_] = self.ev(d, {}, depth)          # defaults belong to the module the helper is defined in
                    for p_, v in zip(names, args):
                        cenv[p_] = v
                    for k, v in kwargs.items():
                        cenv[k] = v
                    self._bind_star(target.node, cenv, kwargs)
                    return self.call_body(target, cenv, depth + 1)
                finally:
                    self.fn_stack.pop()
        # methods of the same object (or of super()): inline through the class hierarchy
        if isinstance(c.func, ast.Attribute) and depth < self.max_depth and self.cls is not None:
            recv = c.func.value
            is_self = isinstance(recv, ast.Name) and recv.id == "self"
            is_super = isinstance(recv, ast.Call) and isinstance(recv.func, ast.Name) and recv.func.id == "super"
            if is_self or is_super:
                target = None
                if is_self:
                    target = self.prog.lookup_method(self.cls, nm)
                else:
                    owner = self.fn_stack[-1].cls
                    if owner is not None:
                        for b in self.prog.mro(self.cls):
                            if b.fullname != owner.fullname and nm in b.methods and b in self.prog.mro(owner)[1:]:
                                target = b.methods[nm]
                                break
                if target is not None and (target not in self.fn_stack[-3:] or self.allow_recursion):
                    from .frontend import decorators as _decos
                    is_static = any(d.split(".")[-1] == "staticmethod" for d in _decos(target.node))
                    is_clsm = any(d.split(".")[-1] == "classmethod" for d in _decos(target.node))
                    params = target.params if is_static else target.params[1:]
                    cenv = {"self": env.get("self", Sym("self"))}
                    if is_clsm and target.params:
                        cenv[target.params[0]] = Sym("cls")          # class constants are read through it (see the attribute rule for 'cls')
                    for k, v in env.items():
                        if k.startswith("self."):
                            cenv[k] = v
                    a = target.node.args
                    defaults = dict(zip([x.arg for x in a.args][len(a.args) - len(a.defaults):], a.defaults))
                    for p_ in params:
                        if p_ in defaults:
                            cenv[p_] = self.ev(defaults[p_], {}, depth)
                    for p_, v in zip(params, args):
                        cenv[p_] = v
                    for k, v in kwargs.items():
                        cenv[k] = v
                    self._bind_star(target.node, cenv, kwargs)
                    self.fn_stack.append(target)
                    try:
                        rv = self.call_body(target, cenv, depth + 1)
                    finally:
                        self.fn_stack.pop()
                    for k, v in cenv.items():
                        if k.startswith("self."):
                            env[k] = v
                    return rv
        if nm == "format" and isinstance(c.func, ast.Attribute) and not kwargs and args is not None:
            fmt_ = self.ev(c.func.value, env, depth)
            if isinstance(fmt_, str) and all(isinstance(a_, (int, str, float)) and not isinstance(a_, bool) for a_ in args):
                try:
                    return fmt_.format(*args)
                except (IndexError, KeyError, ValueError):
                    return UNKNOWN
        if isinstance(c.func, ast.Attribute) and nm in _CONTAINER_METHODS and args is not None:
            base = self.ev(c.func.value, env, depth)
            if isinstance(base, list):
                if nm == "append" and args:
                    base.append(args[0])
                    return None
                if nm == "appendleft" and args:
                    base.insert(0, args[0])
                    return None
                if nm == "extendleft" and args and isinstance(args[0], list):
                    for x_ in args[0]:
                        base.insert(0, x_)           # deque.extendleft inserts one by one: the argument ends up reversed
                    return None
                if nm == "insert" and len(args) == 2 and isinstance(args[0], int) and not isinstance(args[0], bool):
                    base.insert(args[0], args[1])
                    return None
                if nm == "clear" and not args:
                    base.clear()
                    return None
                if nm == "extend" and args and isinstance(args[0], list):
                    base.extend(args[0])
                    return None
                if nm == "extend" and args and isinstance(args[0], dict):
                    base.extend(list(args[0].keys()))          # iterating a dict yields its keys
                    return None
                if nm == "extend" and args and isinstance(args[0], set):
                    base.extend(sorted(args[0], key=repr))
                    return None
                if nm in ("pop", "popleft") and base:
                    i = args[0] if args and isinstance(args[0], int) else (0 if nm == "popleft" else -1)
                    if -len(base) <= i < len(base):
                        return base.pop(i)
                if nm in ("pop", "popleft") and self.strict_index and all(x is not UNKNOWN for x in base) \
                        and (not args or (isinstance(args[0], int) and not isinstance(args[0], bool))):
                    self.throw("IndexError: pop from " + ("an empty list" if not base else f"index {args[0]} of a list of length {len(base)}"), c)
                if nm == "remove" and args and args[0] in base:
                    base.remove(args[0])
                    return None
                if nm in ("sort",) and kwargs.get("key") is not None:
                    keys = [self.apply(kwargs["key"], [x], env, depth) for x in base]
                    if all(_is_num(k) for k in keys):
                        order = sorted(range(len(keys)), key=lambda i: keys[i], reverse=kwargs.get("reverse") is True)
                        base[:] = [base[i] for i in order]
                        return None
                    return UNKNOWN
                if nm == "reverse" and not args:
                    base.reverse()
                    return None
            if isinstance(base, set) and nm == "add" and args:
                base.add(self._hashable(args[0]))
                return None
            if isinstance(base, set) and nm in ("union", "intersection", "difference") and all(isinstance(a, (set, list, dict)) for a in args):
                r_ = set(base)
                for a in args:
                    other = set(self._hashable(x) for x in (a.keys() if isinstance(a, dict) else a))
                    r_ = r_ | other if nm == "union" else r_ & other if nm == "intersection" else r_ - other
                return r_
            if isinstance(base, set) and nm == "update" and len(args) == 1 and isinstance(args[0], (set, list)):
                base.update(self._hashable(x) for x in args[0])
                return None
            if isinstance(base, dict) and nm == "update" and len(args) == 1 and isinstance(args[0], dict):
                base.update(args[0])
                return None
            if isinstance(base, dict) and nm == "update" and len(args) == 1 and isinstance(args[0], list) \
                    and all(isinstance(x_, (list, tuple)) and len(x_) == 2 for x_ in args[0]):
                for k_, v_ in args[0]:
                    base[self._hashable(k_)] = v_
                return None
            if isinstance(base, dict) and nm == "pop" and args:
                return base.pop(self._hashable(args[0]), args[1] if len(args) > 1 else UNKNOWN)
            if isinstance(base, (list, set, dict)) and nm in _MUTATORS:
                # a container the model holds concretely is modified in a way the model does not follow: whatever is computed from it afterwards
                # would be computed from a stale value - the run is marked as not followed instead
                self.undecided.append(f"{type(base).__name__}.{nm}({', '.join(type(a).__name__ for a in args)}) is not modelled: the container's contents are not followed from here")
                return UNKNOWN
        if nm in ("copy", "deepcopy") and len(c.args) == 1 and not c.keywords and (isinstance(c.func, ast.Name) or (
                isinstance(c.func, ast.Attribute) and isinstance(c.func.value, ast.Name) and c.func.value.id == "copy" and "copy" not in env)):
            # copy.copy(x): a new object of the same kind holding the same attribute values (one level); copy.deepcopy(x) of a symbolic
            # object: the same, with references to the object itself inside its attributes redirected to the copy (the memo of deepcopy)
            v = self.ev(c.args[0], env, depth)
            if isinstance(v, Sym):
                self._copies = getattr(self, "_copies", 0) + 1
                nv = Sym(f"{v.tag}~copy{self._copies}")

                def redirect(x, d=0):
                    if x == v:
                        return nv
                    if d < 4 and isinstance(x, list):
                        return [redirect(y, d + 1) for y in x]
                    if d < 4 and isinstance(x, dict):
                        return type(x)((k_, redirect(y, d + 1)) for k_, y in x.items()) if type(x) is dict else x
                    return x
                for (t_, a_), val in list(self.heap.items()):
                    if t_ == v.tag:
                        self.heap[(nv.tag, a_)] = redirect(val) if nm == "deepcopy" else val
                return nv
            if nm == "deepcopy" and not isinstance(v, (int, float, str, bool, tuple)) and v is not None:
                return UNKNOWN
            if isinstance(v, Obj):
                return Obj(v.cls, dict(v.fields))
            if isinstance(v, (list, dict, set)):
                return type(v)(v)
            if isinstance(v, (int, float, str, tuple, bool)) or v is None:
                return v
            return UNKNOWN
        if isinstance(c.func, ast.Attribute) and nm == "copy":
            v = self.ev(c.func.value, env, depth)
            if isinstance(v, list):
                return list(v)
        if isinstance(c.func, ast.Name) and c.func.id not in env and c.func.id in _VALUE_BUILTINS:
            concrete_ = (int, float, str, bool, list, dict, set, tuple, type(None), Obj, TypeV)
            if c.func.id in _ITER_BUILTINS and len(args) >= 1 and any(isinstance(a_, (int, float, bool, type(None))) and a_ is not UNKNOWN
                                                                          for a_ in (args if c.func.id == "zip" else args[:1])) \
                    and not (c.func.id in ("min", "max", "sum") and len(args) > 1):
                self.throw(f"TypeError: {c.func.id}() of a value that is not iterable", c)      # what Python does
            if args and all(isinstance(a_, concrete_) and a_ is not UNKNOWN for a_ in args) and all(isinstance(v_, concrete_) and v_ is not UNKNOWN for v_ in kwargs.values()):
                # a builtin applied to values the model holds, for which it has no semantics: whatever depends on the result would be decided by
                # guessing both ways - the run is marked as not followed instead
                self.undecided.append(f"builtin {c.func.id}({', '.join(type(a_).__name__ for a_ in args)}) is not modelled for these arguments")
            if os.environ.get("VERIF_DEBUG_FALLTHROUGH"):
                with open(os.environ["VERIF_DEBUG_FALLTHROUGH"], "a") as fh_:
                    fh_.write(f"{c.func.id}({', '.join(type(a).__name__ for a in args)}) in {self.fn_stack[-1].fullname if self.fn_stack else '?'}\n")
        return UNKNOWN


_VALUE_BUILTINS = frozenset(("getattr", "type", "vars", "id", "dict", "list", "set", "frozenset", "tuple", "sorted", "reversed", "min", "max", "sum", "any", "all", "len", "abs",
                             "round", "divmod", "int", "float", "bool", "str", "enumerate", "zip", "map", "filter", "range", "iter", "next", "callable", "isinstance",
                             "issubclass", "hasattr", "slice", "object", "pow", "repr", "hash", "ord", "chr", "bin", "hex", "format", "setattr", "delattr"))
_ITER_BUILTINS = frozenset(("len", "zip", "iter", "all", "any", "sum", "min", "max", "sorted", "list", "tuple", "set", "frozenset", "enumerate", "reversed"))
_MUTATORS = ("append", "appendleft", "extend", "extendleft", "insert", "pop", "popleft", "popitem", "remove", "discard", "clear", "add", "update", "sort", "reverse",
             "setdefault", "rotate", "intersection_update", "difference_update", "symmetric_difference_update")
_CONTAINER_METHODS = _MUTATORS + ("union", "intersection", "difference")
_ARITH_OPS = {"mul": (ast.Mult, 2), "add": (ast.Add, 2), "sub": (ast.Sub, 2), "truediv": (ast.Div, 2), "floordiv": (ast.FloorDiv, 2), "mod": (ast.Mod, 2),
              "neg": (ast.USub, 1), "pos": (ast.UAdd, 1), "not_": (ast.Not, 1),
              "lt": (ast.Lt, 2), "le": (ast.LtE, 2), "gt": (ast.Gt, 2), "ge": (ast.GtE, 2), "eq": (ast.Eq, 2), "ne": (ast.NotEq, 2)}


def _install():
    def apply(self, fv: Any, args: list, env: dict, depth: int) -> Any:
        """call a callable value (closure, lambda, symbolic callable) on interpreted arguments"""
        if isinstance(fv, LocalFn):
            return self.call_local(fv, args, {}, depth, env)
        if isinstance(fv, BoundOp) and fv.kind == "objmethod":
            obj_, name_ = fv.target
            env2 = {"__recv": obj_}
            nodes_ = []
            for i_, a_ in enumerate(args):
                env2[f"__a{i_}"] = a_
                nodes_.append(ast.Name(id=f"__a{i_}", ctx=ast.Load()))
            fake = ast.Call(func=ast.Attribute(value=ast.Name(id="__recv", ctx=ast.Load()), attr=name_, ctx=ast.Load()), args=nodes_, keywords=[])
            return self.ev(ast.fix_missing_locations(fake), env2, depth)
        if isinstance(fv, BoundOp) and len(args) == 1 and fv.kind == "methodcaller":
            name_, margs = fv.target[0], fv.target[1:]
            env2 = {"__recv": args[0]}
            nodes_ = []
            for i_, a_ in enumerate(margs):
                env2[f"__a{i_}"] = a_
                nodes_.append(ast.Name(id=f"__a{i_}", ctx=ast.Load()))
            fake = ast.Call(func=ast.Attribute(value=ast.Name(id="__recv", ctx=ast.Load()), attr=name_, ctx=ast.Load()), args=nodes_, keywords=[])
            return self.ev(ast.fix_missing_locations(fake), env2, depth)
        if isinstance(fv, BoundOp) and len(args) == 1 and fv.kind == "attrgetter" and len(fv.target) == 1 and isinstance(fv.target[0], str):
            node_: ast.AST = ast.Name(id="__recv", ctx=ast.Load())
            for part in fv.target[0].split("."):
                node_ = ast.Attribute(value=node_, attr=part, ctx=ast.Load())
            return self.ev(ast.fix_missing_locations(node_), {"__recv": args[0]}, depth)
        if isinstance(fv, BoundOp) and len(args) == 1 and fv.kind == "itemgetter" and len(fv.target) == 1:
            return self.apply(BoundOp("__getitem__", args[0]), [fv.target[0]], env, depth)
        if isinstance(fv, BoundOp) and len(args) == 1:
            if fv.kind == "__getitem__":
                node = ast.Subscript(value=ast.Name(id="__b", ctx=ast.Load()), slice=ast.Name(id="__i", ctx=ast.Load()), ctx=ast.Load())
                return self.ev(ast.fix_missing_locations(node), {"__b": fv.target, "__i": args[0]}, depth)
            if fv.kind == "__contains__":
                node = ast.Compare(left=ast.Name(id="__i", ctx=ast.Load()), ops=[ast.In()], comparators=[ast.Name(id="__b", ctx=ast.Load())])
                return self.ev(ast.fix_missing_locations(node), {"__b": fv.target, "__i": args[0]}, depth)
        if isinstance(fv, TypeV) and fv.kind == "builtin" and fv.name in ("float", "int") and len(args) == 1 and isinstance(args[0], SVal):
            return args[0]          # float(x) / int(x) of a symbolic number, used as a value (map(float, xs))
        if isinstance(fv, TypeV) and fv.kind == "builtin" and fv.name == "float" and len(args) == 1 and _is_num(args[0]):
            return float(args[0])
        if isinstance(fv, TypeV) and fv.kind == "builtin" and fv.name == "str" and len(args) == 1 and isinstance(args[0], (TypeV, Sym, str, int)):
            return args[0].name if isinstance(args[0], TypeV) else args[0].tag if isinstance(args[0], Sym) else str(args[0])
        if isinstance(fv, Sym) and fv.tag.count(".") == 1 and fv.tag.split(".")[0] in env and not any(ch in fv.tag for ch in "([ :~") \
                and not fv.tag.startswith("operator.") and not getattr(self, "_redispatch_apply", False):
            # a bound method used as a value (reduce(self.step, xs, init), map(self.f, xs)): called on its object
            base_, attr_ = fv.tag.split(".")
            env2 = dict(env)
            names_ = []
            for i_, a_ in enumerate(args):
                env2[f"__a{i_}"] = a_
                names_.append(ast.Name(id=f"__a{i_}", ctx=ast.Load()))
            fake = ast.Call(func=ast.Attribute(value=ast.Name(id=base_, ctx=ast.Load()), attr=attr_, ctx=ast.Load()), args=names_, keywords=[])
            self._redispatch_apply = True
            try:
                return self.ev(ast.fix_missing_locations(fake), env2, depth)
            finally:
                self._redispatch_apply = False
        if isinstance(fv, Sym) and fv.tag.startswith("class:"):
            # a class held in a variable is called: the rule's call model sees it as a call of that class by name
            cname_ = fv.tag.rsplit(".", 1)[-1]
            names_ = [f"__a{i_}" for i_ in range(len(args))]
            fake = ast.fix_missing_locations(ast.Call(func=ast.Name(id=cname_, ctx=ast.Load()), args=[ast.Name(id=n_, ctx=ast.Load()) for n_ in names_], keywords=[]))
            r_ = self.call_model(self, fake, dict(zip(names_, args)), list(args), {}) if self.call_model is not None else None
            if r_ is not None:
                return None if r_ is _NONE else r_
            return UNKNOWN
        if isinstance(fv, Sym) and fv.tag.startswith("builtin:"):
            # a builtin function passed as a value (accumulate(xs, max), map(str, xs)): the call is evaluated as if written out
            names_ = [f"__a{i_}" for i_ in range(len(args))]
            fake = ast.Call(func=ast.Name(id=fv.tag[8:], ctx=ast.Load()), args=[ast.Name(id=n_, ctx=ast.Load()) for n_ in names_], keywords=[])
            return self.ev(ast.fix_missing_locations(fake), dict(zip(names_, args)), depth)
        if isinstance(fv, BoundOp) and fv.kind == "partial":
            f0, a0, k0 = fv.target
            if isinstance(f0, LocalFn):
                return self.call_local(f0, list(a0) + list(args), dict(k0), depth, env)
            if k0 and isinstance(f0, Sym) and f0.tag.count(".") == 1 and f0.tag.split(".")[0] in env and not any(ch in f0.tag for ch in "([ :~"):
                base_, attr_ = f0.tag.split(".")
                env2 = dict(env)
                names_, kws_ = [], []
                for i_, a_ in enumerate(list(a0) + list(args)):
                    env2[f"__a{i_}"] = a_
                    names_.append(ast.Name(id=f"__a{i_}", ctx=ast.Load()))
                for k_, v_ in k0.items():
                    env2[f"__k_{k_}"] = v_
                    kws_.append(ast.keyword(arg=k_, value=ast.Name(id=f"__k_{k_}", ctx=ast.Load())))
                fake = ast.Call(func=ast.Attribute(value=ast.Name(id=base_, ctx=ast.Load()), attr=attr_, ctx=ast.Load()), args=names_, keywords=kws_)
                return self.ev(ast.fix_missing_locations(fake), env2, depth)
            if k0:
                return UNKNOWN
            return self.apply(f0, list(a0) + list(args), env, depth)
        if isinstance(fv, Sym) and fv.tag in ("operator.getitem", "operator.contains") and len(args) == 2:
            return self.apply(BoundOp("__getitem__" if fv.tag.endswith("getitem") else "__contains__", args[0]), [args[1]], env, depth)
        if isinstance(fv, Sym) and fv.tag.startswith("operator.") and fv.tag[9:] in _ARITH_OPS and len(args) == _ARITH_OPS[fv.tag[9:]][1]:
            # operator.mul(a, b) is a * b: evaluated as the expression, so symbolic operands are handled as everywhere else
            names_ = ["__a", "__b"][:len(args)]
            opn = _ARITH_OPS[fv.tag[9:]][0]
            node = (ast.BinOp(left=ast.Name(id="__a", ctx=ast.Load()), op=opn(), right=ast.Name(id="__b", ctx=ast.Load())) if len(args) == 2 and issubclass(opn, ast.operator)
                    else ast.Compare(left=ast.Name(id="__a", ctx=ast.Load()), ops=[opn()], comparators=[ast.Name(id="__b", ctx=ast.Load())]) if len(args) == 2
                    else ast.UnaryOp(op=opn(), operand=ast.Name(id="__a", ctx=ast.Load())))
            return self.ev(ast.fix_missing_locations(node), dict(zip(names_, args)), depth)
        if isinstance(fv, Sym) and self.sym_result is not None:
            return self.sym_result(fv, args)
        return UNKNOWN

    def call_local(self, f: LocalFn, args, kwargs, depth, caller_env=None):
        node = f.node
        if isinstance(node, ast.Lambda):
            a = node.args
            params = [x.arg for x in a.posonlyargs + a.args]
            cenv = dict(f.env)
            if caller_env is not None:
                for k, v in caller_env.items():
                    if k.startswith("self."):
                        cenv[k] = v
            for p_, d in zip(params[len(params) - len(a.defaults):], a.defaults):
                cenv[p_] = f.defaults[p_] if f.defaults is not None and p_ in f.defaults else self.ev(d, f.env, depth)
            for p_, v in zip(params, args):
                cenv[p_] = v
            for k, v in kwargs.items():
                cenv[k] = v
            return self.ev(node.body, cenv, depth + 1)
        a = node.args
        params = [x.arg for x in a.posonlyargs + a.args]
        cenv = dict(f.env)
        if caller_env is not None:
            # the closure's 'self' is the caller's: attribute state is the current one
            for k, v in caller_env.items():
                if k.startswith("self."):
                    cenv[k] = v
        defaults = dict(zip(params[len(params) - len(a.defaults):], a.defaults))
        for p_, d in defaults.items():
            cenv[p_] = f.defaults[p_] if f.defaults is not None and p_ in f.defaults else self.ev(d, f.env, depth)
        for p_, v in zip(params, args):
            cenv[p_] = v
        for k, v in kwargs.items():
            cenv[k] = v
        self._bind_star(node, cenv, kwargs)
        gen = _is_generator(node)
        start = len(self.trace)
        rv = None
        # a module-level function of another module: names in its body (constants, helpers) resolve in *its* module
        pushed = isinstance(f.owner, FunctionInfo) and f.owner.node is node and self.fn_stack and f.owner.module is not self.fn_stack[-1].module
        if pushed:
            self.fn_stack.append(f.owner)
        try:
            self.block(node.body, cenv, depth + 1)
        except _Raise:
            raise
        except _Return as r:
            rv = r.value
        finally:
            if pushed:
                self.fn_stack.pop()
        if gen:
            return self._collect_yields(start)
        return rv

    def _hashable(self, v):
        if v is UNKNOWN:
            # a key the model does not know: whatever is looked up in that table afterwards is not followed
            if not any("a table is keyed by a value the model does not follow" in u_ for u_ in self.undecided):
                self.undecided.append("a table is keyed by a value the model does not follow")
            return "?unknown-key"
        if isinstance(v, Sym):
            return v.tag
        if isinstance(v, list):
            return tuple(self._hashable(x) for x in v)
        if isinstance(v, TypeV):
            return v        # types are hashable values: a table keyed by types yields types when iterated
        return v if isinstance(v, (str, int, float, bool, tuple, type(None))) else repr(v)

    def _defaults(self, node, env, depth):
        a = node.args
        params = [x.arg for x in a.posonlyargs + a.args]
        out = {}
        for p_, d in zip(params[len(params) - len(a.defaults):], a.defaults):
            out[p_] = self.ev(d, env, depth)
        for k_, d in zip(a.kwonlyargs, a.kw_defaults):
            if d is not None:
                out[k_.arg] = self.ev(d, env, depth)
        return out

    def _module_global(self, name: str, depth: int):
        """a module-level container / constant / function of the repository used as a value: evaluated once per trace and
        *shared* by everything interpreted in that trace (that is what module-level state is)"""
        if not self.fn_stack:
            return None
        mod = self.fn_stack[-1].module
        key = (mod.name, name)
        if key in self.globals:
            return self.globals[key]
        val = None
        for st in mod.tree.body:
            tgt = st.targets[0] if isinstance(st, ast.Assign) and len(st.targets) == 1 else st.target if isinstance(st, ast.AnnAssign) else None
            if isinstance(tgt, ast.Name) and tgt.id == name and getattr(st, "value", None) is not None \
                    and (isinstance(st.value, (ast.Dict, ast.List, ast.Set, ast.Tuple, ast.Constant))
                         or (isinstance(st.value, ast.Call) and call_name(st.value) in ("attrgetter", "itemgetter", "methodcaller", "frozenset", "tuple"))
                         or (isinstance(st.value, ast.Call) and isinstance(st.value.func, ast.Name) and st.value.func.id == "object" and not st.value.args)):
                val = self.ev(st.value, {}, depth + 1)
                break
            if isinstance(st, (ast.FunctionDef, ast.AsyncFunctionDef)) and st.name == name:
                fi = mod.functions.get(name)
                val = LocalFn(st, {}, fi if fi is not None else self.fn_stack[-1], self._defaults(st, {}, depth))
                break
        if val is None:
            # a module-level constant of the repository imported by name (INF_VALUE)
            full_ = self.prog.resolve_name(mod, name)
            if full_ and "." in full_:
                mname_, cname_ = full_.rsplit(".", 1)
                src_ = self.prog.modules.get(mname_) if hasattr(self.prog, "modules") else None
                if src_ is not None and src_ is not mod:
                    for st in src_.tree.body:
                        tgt = st.targets[0] if isinstance(st, ast.Assign) and len(st.targets) == 1 else st.target if isinstance(st, ast.AnnAssign) else None
                        if isinstance(tgt, ast.Name) and tgt.id == cname_ and isinstance(getattr(st, "value", None), ast.Constant):
                            val = st.value.value
                            break
                        if isinstance(tgt, ast.Name) and tgt.id == cname_ and isinstance(getattr(st, "value", None), ast.Call) \
                                and call_name(st.value) in ("attrgetter", "itemgetter", "methodcaller"):
                            fi0_ = next(iter(src_.functions.values()), None)      # evaluated in the defining module (its imports resolve 'attrgetter')
                            if fi0_ is not None:
                                self.fn_stack.append(fi0_)
                                try:
                                    val = self.ev(st.value, {}, depth + 1)
                                finally:
                                    self.fn_stack.pop()
                                if val is UNKNOWN:
                                    val = None
                            break
        if val is None:
            # a module-level function of the repository imported by name
            full = self.prog.resolve_name(mod, name)
            fi = self.prog.functions.get(full) if full else None
            if fi is not None and fi.cls is None and fi.parent is None and isinstance(fi.node, (ast.FunctionDef, ast.AsyncFunctionDef)):
                self.fn_stack.append(fi)          # parameter defaults are evaluated where the function is defined
                try:
                    dflt_ = self._defaults(fi.node, {}, depth)
                finally:
                    self.fn_stack.pop()
                val = LocalFn(fi.node, {}, fi, dflt_)
        if val is None:
            # a class of the repository used as a value (a table of classes): calling the value is calling the class
            full = self.prog.resolve_name(mod, name)
            if full and full in self.prog.classes:
                val = Sym("class:" + full)
        if val is None:
            # a function of the operator module imported by name (from operator import mul)
            full = self.prog.resolve_name(mod, name)
            if full and full.startswith("operator.") and full.count(".") == 1:
                val = Sym(full)
        if val is None or val is UNKNOWN:
            return None
        self.globals[key] = val
        return val

    def _class_const(self, cls_info, attr: str, depth: int):
        """NAME = <literal / tuple / list / dict of names and constants> in the body of the class or of one of its bases"""
        for k_ in self.prog.mro(cls_info):
            for st_ in k_.node.body:
                tg_ = st_.targets[0] if isinstance(st_, ast.Assign) and len(st_.targets) == 1 else st_.target if isinstance(st_, ast.AnnAssign) else None
                if isinstance(tg_, ast.Name) and tg_.id == attr and getattr(st_, "value", None) is not None \
                        and (isinstance(st_.value, (ast.Constant, ast.List, ast.Tuple, ast.Dict, ast.Set, ast.Name, ast.Attribute))
                             or (isinstance(st_.value, ast.Call) and call_name(st_.value) in ("attrgetter", "itemgetter", "methodcaller", "frozenset", "tuple"))):
                    v_ = self.ev(st_.value, {}, depth + 1)
                    return None if v_ is UNKNOWN else v_
        return None

    def _bind_star(self, node, cenv: dict, kwargs: dict) -> None:
        """def f(..., **extra): the keyword arguments that name no parameter are collected in the mapping 'extra'"""
        a_ = getattr(node, "args", None)
        if a_ is None or a_.kwarg is None:
            return
        named_ = {x.arg for x in a_.posonlyargs + a_.args + a_.kwonlyargs}
        extra_ = {k: v for k, v in kwargs.items() if k not in named_}
        for k in extra_:
            cenv.pop(k, None)
        cenv[a_.kwarg.arg] = extra_

    Interp._bind_star = _bind_star
    Interp._class_const = _class_const
    Interp._module_global = _module_global
    Interp.call_local = call_local
    Interp.apply = apply
    Interp._defaults = _defaults
    Interp._hashable = _hashable
    Interp.sym_result = None
    Interp.on_start = None
    Interp.allow_recursion = False
    Interp.prelude_same_object = True
    Interp.strict_index = False
    Interp.strict_keys = False
    Interp.strict_iter = False
    Interp.strict_attrs = False
    Interp.fork_sites = []
    Interp.instantiate_classes = False
    Interp.range_cap = 12          # range(..) longer than this is not unrolled (a rule working on larger concrete sizes raises it)
    Interp.while_cap = 3
    Interp.prelude_len = 0


def _is_generator(node: ast.AST) -> bool:
    from .frontend import walk_local
    return any(isinstance(x, (ast.Yield, ast.YieldFrom)) for x in walk_local(node))


def _is_num(v: Any) -> bool:
    from fractions import Fraction
    return isinstance(v, (int, float, Fraction)) and not isinstance(v, bool)


def _is_dataclass(ci) -> bool:
    """dataclasses and typing.NamedTuple classes: instances are records of their annotated fields"""
    from .frontend import decorators, dotted as _d
    if any((_d(b) or "").split(".")[-1] == "NamedTuple" for b in ci.node.bases):
        return True
    return any(d.split(".")[-1] == "dataclass" for d in decorators(ci.node))


def _dataclass_fields(prog, ci) -> list[str]:
    out = []
    for b in reversed(prog.mro(ci)):
        for st in b.node.body:
            if isinstance(st, ast.AnnAssign) and isinstance(st.target, ast.Name) and st.target.id not in out:
                out.append(st.target.id)
    return out


def _copy_val(v: Any) -> Any:
    if isinstance(v, Arr):
        return Arr(_copy_val(x) for x in v)
    if isinstance(v, list):
        return [_copy_val(x) for x in v]
    if isinstance(v, set):
        return set(v)
    if isinstance(v, DDict):
        d = DDict((k, _copy_val(x)) for k, x in v.items())
        d.factory = v.factory
        return d
    if isinstance(v, ObjDict):
        o = ObjDict(v.cls, {k: _copy_val(x) for k, x in v.fields.items()}, v.full)
        for k, x in v.items():
            o[k] = _copy_val(x)
        return o
    if isinstance(v, dict):
        return {k: _copy_val(x) for k, x in v.items()}
    if isinstance(v, Obj):
        return Obj(v.cls, {k: _copy_val(x) for k, x in v.fields.items()}, v.full)
    return v


def _copy_env(env: dict) -> dict:
    return {k: _copy_val(v) for k, v in env.items()}


_BUILTIN_TYPES = {"list": list, "bool": bool, "int": int, "float": float, "dict": dict, "str": str, "set": set, "tuple": tuple}


def _isinstance(v: Any, tyexpr: ast.AST) -> Any:
    names = [tyexpr] if not isinstance(tyexpr, ast.Tuple) else list(tyexpr.elts)
    tys = []
    for n in names:
        if isinstance(n, ast.Name) and n.id in _BUILTIN_TYPES:
            tys.append(_BUILTIN_TYPES[n.id])
        else:
            return UNKNOWN
    if isinstance(v, SVal) or isinstance(v, SumVal):
        return any(t in (int, float) for t in tys) if all(t in (int, float, list, bool, dict, str, set, tuple) for t in tys) else UNKNOWN
    if v is None or isinstance(v, (bool, int, float, str, list, dict, set)):
        return isinstance(v, tuple(tys))
    return UNKNOWN


class _NoneMarker:
    pass


_NONE = _NoneMarker()   # call models return this to say "the call evaluates to Python None"


def _path(e: ast.AST) -> Optional[str]:
    parts = []
    while isinstance(e, ast.Attribute):
        parts.append(e.attr)
        e = e.value
    if isinstance(e, ast.Name):
        parts.append(e.id)
        return ".".join(reversed(parts))
    return None


_install()
