"""E4: provenance of random sources (and of stored state) along the resolved call graph.

Starting from an entry point (a representation's ``genotype_to_phenotype``) the walker follows resolved calls
context-sensitively, carrying for every parameter / local a *provenance term* expressed relative to the entry:

    GB                      a RandomSource subclass instance constructed during the mapping from the genotype's genes
    NEW(cls)                a random source constructed during the mapping from something else
    PATH(root, f1, f2, ..)  an object reached from an entry parameter ('self' = the representation, 'genotype')
    OBJ(cls, {field: term}) an object constructed during the mapping (fields taken from its __init__ assignments)
    UNKNOWN

Every call of a RandomSource primitive is a *draw site*; every attribute / item store is a *store site*; both are
reported with the term of the receiver / target, so that rules can classify them (genotype-backed, permitted,
foreign; fresh object vs. state that outlives the mapping).  RandomSource methods themselves are primitives and
are not entered.  Unresolved calls on a path are counted.
"""
from __future__ import annotations

import ast
from dataclasses import dataclass, field
from typing import Optional

from .astutil import call_name
from .frontend import ClassInfo, FunctionInfo, Program, is_stub, norm, walk_local
from .resolve import Resolver

DRAWS = {"randint", "random_float", "choice", "choice_weighted", "shuffle", "pop_random", "random_bool", "normalvariate",
         "random", "uniform", "gauss", "sample", "choices", "randrange", "getrandbits"}
RANDOM_SOURCE = "geneticengine.random.sources.RandomSource"


@dataclass(frozen=True)
class Term:
    kind: str                       # 'gb' | 'new' | 'path' | 'obj' | 'unknown'
    path: tuple = ()
    cls: str = ""
    fields: tuple = ()              # tuple of (name, Term) for objects

    def attr(self, name: str) -> "Term":
        if self.kind == "path":
            return Term("path", self.path + (name,))
        if self.kind == "obj":
            for k, v in self.fields:
                if k == name:
                    return v
            return Term("unknown")
        return Term("unknown")

    def show(self) -> str:
        if self.kind == "path":
            return ".".join(self.path)
        if self.kind == "gb":
            return "<genotype-backed source>"
        if self.kind == "new":
            return f"<new {self.cls.rsplit('.', 1)[-1]}>"
        if self.kind == "obj":
            return f"<fresh {self.cls.rsplit('.', 1)[-1]}>"
        return "<unknown>"

    def key(self) -> str:
        return self.show()


UNKNOWN = Term("unknown")


@dataclass
class Site:
    fn: FunctionInfo
    node: ast.AST
    term: Term
    what: str
    stack: tuple


class Provenance:
    def __init__(self, prog: Program, res: Resolver, max_depth: int = 14):
        self.prog, self.res, self.max_depth = prog, res, max_depth
        self.draws: list[Site] = []
        self.stores: list[Site] = []
        self.unresolved: list[tuple[FunctionInfo, ast.Call]] = []
        self._seen: set = set()
        self.visited_functions: set[str] = set()
        self.cha_filter = None   # optional (receiver term, candidate target) -> bool

    # ------------------------------------------------------------------------------------------
    def is_source_class(self, c: Optional[ClassInfo]) -> bool:
        return c is not None and self.prog.is_subclass(c, RANDOM_SOURCE)

    def run(self, entry: FunctionInfo, env: dict[str, Term]) -> None:
        self._visit(entry, env, 0, (entry.qualname,))

    def _visit(self, fn: FunctionInfo, env: dict[str, Term], depth: int, stack: tuple) -> Term:
        key = (fn.fullname, tuple(sorted((k, v.key()) for k, v in env.items() if v.kind != "unknown")))
        if key in self._seen or depth > self.max_depth:
            return UNKNOWN
        self._seen.add(key)
        self.visited_functions.add(fn.fullname)
        env = dict(env)
        ret: Term = UNKNOWN
        body = fn.node.body if isinstance(fn.node.body, list) else []
        # two passes so that names bound later in loops are visible (flow-insensitive fixpoint, bounded)
        for _ in range(2):
            for st in self._stmts(body):
                if isinstance(st, ast.Assign):
                    v = self._eval(fn, st.value, env, depth, stack)
                    for t in st.targets:
                        self._bind(fn, t, v, env, st, stack)
                elif isinstance(st, ast.AnnAssign) and st.value is not None:
                    v = self._eval(fn, st.value, env, depth, stack)
                    self._bind(fn, st.target, v, env, st, stack)
                elif isinstance(st, ast.AugAssign):
                    self._eval(fn, st.value, env, depth, stack)
                    self._store_site(fn, st.target, env, st, stack)
                elif isinstance(st, ast.Delete):
                    for t in st.targets:
                        self._store_site(fn, t, env, st, stack)
                elif isinstance(st, ast.Return) and st.value is not None:
                    r = self._eval(fn, st.value, env, depth, stack)
                    if ret.kind == "unknown":
                        ret = r
                elif isinstance(st, ast.Expr):
                    self._eval(fn, st.value, env, depth, stack)
                elif isinstance(st, (ast.If, ast.While)):
                    self._eval(fn, st.test, env, depth, stack)
                elif isinstance(st, (ast.For, ast.AsyncFor)):
                    self._eval(fn, st.iter, env, depth, stack)
                elif isinstance(st, ast.Assert):
                    self._eval(fn, st.test, env, depth, stack)
                elif isinstance(st, (ast.With, ast.AsyncWith)):
                    for it in st.items:
                        self._eval(fn, it.context_expr, env, depth, stack)
        return ret

    def _stmts(self, body: list[ast.stmt]):
        for st in body:
            yield st
            for fld in ("body", "orelse", "finalbody"):
                sub = getattr(st, fld, None)
                if isinstance(sub, list) and not isinstance(st, (ast.FunctionDef, ast.AsyncFunctionDef, ast.ClassDef)):
                    yield from self._stmts(sub)
            for h in getattr(st, "handlers", []) or []:
                yield from self._stmts(h.body)
            if hasattr(ast, "Match") and isinstance(st, ast.Match):
                for c in st.cases:
                    yield from self._stmts(c.body)

    def _bind(self, fn, target, v: Term, env, node, stack):
        if isinstance(target, ast.Name):
            if v.kind != "unknown" or target.id not in env:
                env[target.id] = v
        elif isinstance(target, (ast.Tuple, ast.List)):
            for el in target.elts:
                self._bind(fn, el, UNKNOWN, env, node, stack)
        else:
            self._store_site(fn, target, env, node, stack)

    def _store_site(self, fn, target, env, node, stack):
        base = target
        while isinstance(base, (ast.Subscript, ast.Attribute)):
            base = base.value
            t = self._term_of(fn, base, env)
            if t.kind in ("path", "obj", "gb", "new"):
                self.stores.append(Site(fn, node, t, norm(target)[:60], stack))
                return

    def _term_of(self, fn, e, env) -> Term:
        if isinstance(e, ast.Name):
            return env.get(e.id, UNKNOWN)
        if isinstance(e, ast.Attribute):
            return self._term_of(fn, e.value, env).attr(e.attr)
        return UNKNOWN

    # ------------------------------------------------------------------------------------------
    def _eval(self, fn: FunctionInfo, e: ast.AST, env: dict[str, Term], depth: int, stack: tuple) -> Term:
        if isinstance(e, ast.Name):
            return env.get(e.id, UNKNOWN)
        if isinstance(e, ast.Attribute):
            return self._eval(fn, e.value, env, depth, stack).attr(e.attr)
        if isinstance(e, ast.Call):
            return self._call(fn, e, env, depth, stack)
        if isinstance(e, ast.IfExp):
            self._eval(fn, e.test, env, depth, stack)
            a = self._eval(fn, e.body, env, depth, stack)
            b = self._eval(fn, e.orelse, env, depth, stack)
            return a if a.kind != "unknown" else b
        if isinstance(e, (ast.Lambda,)):
            return UNKNOWN
        # evaluate sub-expressions for their calls
        for ch in ast.iter_child_nodes(e):
            if isinstance(ch, ast.expr):
                self._eval(fn, ch, env, depth, stack)
            elif isinstance(ch, ast.comprehension):
                self._eval(fn, ch.iter, env, depth, stack)
                for c in ch.ifs:
                    self._eval(fn, c, env, depth, stack)
        return UNKNOWN

    def _ctor_fields(self, cls: ClassInfo, init: FunctionInfo, bound: dict, hops: int = 0) -> dict:
        """fields an __init__ assigns from its parameters (names or attribute chains of them), following
        super().__init__(...) / Base.__init__(self, ...) into the inherited constructors"""
        out: dict[str, Term] = {}
        for st in self._stmts(init.node.body):
            if isinstance(st, (ast.Assign, ast.AnnAssign)) and st.value is not None:
                tg = st.targets[0] if isinstance(st, ast.Assign) else st.target
                if isinstance(tg, ast.Attribute) and isinstance(tg.value, ast.Name) and tg.value.id == "self":
                    v = self._term_of(init, st.value, bound)
                    if v.kind != "unknown":
                        out[tg.attr] = v
                    else:
                        out.pop(tg.attr, None)
            elif isinstance(st, ast.Expr) and isinstance(st.value, ast.Call) and isinstance(st.value.func, ast.Attribute) \
                    and st.value.func.attr == "__init__" and hops < 6:
                c = st.value
                base = c.func.value
                parent: Optional[FunctionInfo] = None
                args = list(c.args)
                if isinstance(base, ast.Call) and isinstance(base.func, ast.Name) and base.func.id == "super":
                    owner = init.cls or cls
                    mro = self.prog.mro(cls)
                    names = [k.fullname for k in mro]
                    start = names.index(owner.fullname) + 1 if owner.fullname in names else 1
                    for k in mro[start:]:
                        g = k.methods.get("__init__") if hasattr(k, "methods") else None
                        if g is not None:
                            parent = g
                            break
                elif isinstance(base, ast.Name) and args and isinstance(args[0], ast.Name) and args[0].id == "self":
                    for k in self.prog.mro(cls)[1:]:
                        if k.name == base.id:
                            parent = k.methods.get("__init__") if hasattr(k, "methods") else None
                            break
                    args = args[1:]
                if parent is None or any(isinstance(a, ast.Starred) for a in args):
                    continue
                pb: dict[str, Term] = {}
                for p_, a in zip(parent.params[1:], args):
                    pb[p_] = self._term_of(init, a, bound)
                for k in c.keywords:
                    if k.arg:
                        pb[k.arg] = self._term_of(init, k.value, bound)
                out.update(self._ctor_fields(cls, parent, pb, hops + 1))
        return out

    def _rooted_in(self, t: Term, root: str) -> bool:
        return t.kind == "path" and t.path and t.path[0] == root

    def _call(self, fn: FunctionInfo, c: ast.Call, env, depth, stack) -> Term:
        args = [self._eval(fn, a, env, depth, stack) for a in c.args]
        kws = {k.arg: self._eval(fn, k.value, env, depth, stack) for k in c.keywords if k.arg}
        nm = call_name(c)
        recv: Optional[Term] = None
        if isinstance(c.func, ast.Attribute):
            recv = self._eval(fn, c.func.value, env, depth, stack)
        owner = self.prog.function_containing(c) or fn
        t = self.res.resolve(owner, c)
        # ---- draw sites: a RandomSource primitive (by receiver term or by static type)
        if isinstance(c.func, ast.Attribute) and nm in DRAWS:
            static_src = any(self.is_source_class(k) for k in t.recv_classes) or \
                (t.kind == "external" and (t.name.startswith("random.") or t.name.startswith("numpy.random")))
            term_src = recv is not None and (recv.kind in ("gb", "new") or (recv.kind == "obj" and self.is_source_class(self.prog.classes.get(recv.cls))))
            if static_src or term_src:
                self.draws.append(Site(fn, c, recv if recv is not None else UNKNOWN, nm, stack))
                return UNKNOWN
        # ---- constructors
        if t.kind == "ctor" and t.cls is not None:
            cls = t.cls
            if self.is_source_class(cls):
                from_geno = any(self._rooted_in(a, "genotype") for a in args + list(kws.values()))
                return Term("gb") if from_geno else Term("new", cls=cls.fullname)
            fields = []
            init = t.targets[0] if t.targets else None
            params = init.params[1:] if init is not None else [k for k, v in cls.class_attrs.items() if isinstance(v, ast.AnnAssign)]
            bound: dict[str, Term] = {}
            for p_, a in zip(params, args):
                bound[p_] = a
            for k, v in kws.items():
                bound[k] = v
            if init is not None:
                fields = list(self._ctor_fields(cls, init, bound).items())
                # the constructor body itself runs during the mapping
                self._visit(init, {"self": Term("obj", cls=cls.fullname, fields=tuple(fields)), **bound}, depth + 1, stack + (init.qualname,))
            else:
                fields = list(bound.items())   # dataclass: fields are the parameters
            return Term("obj", cls=cls.fullname, fields=tuple(fields))
        # ---- repo callees
        targets: list[FunctionInfo] = []
        if recv is not None and recv.kind == "obj" and recv.cls in self.prog.classes:
            g = self.prog.lookup_method(self.prog.classes[recv.cls], nm)
            if g is not None:
                targets = [g]
        elif recv is not None and recv.kind in ("gb", "new"):
            return UNKNOWN  # non-draw method of a source (e.g. attribute helpers)
        if not targets and t.kind == "repo":
            targets = list(t.targets)
            if recv is not None and recv.kind == "path" and self.cha_filter is not None:
                targets = [g for g in targets if self.cha_filter(recv, g)]
        if not targets:
            if t.kind == "unresolved":
                self.unresolved.append((fn, c))
            return UNKNOWN
        ret = UNKNOWN
        for g in targets:
            if is_stub(g.node):
                continue
            if g.cls is not None and self.is_source_class(g.cls):
                continue  # RandomSource methods are primitives
            params = g.params
            cenv: dict[str, Term] = {}
            off = 0
            if params and params[0] in ("self", "cls") and isinstance(c.func, ast.Attribute) and g.cls is not None:
                cenv[params[0]] = recv if recv is not None else UNKNOWN
                off = 1
            for p_, a in zip(params[off:], args):
                cenv[p_] = a
            for k, v in kws.items():
                if k in params:
                    cenv[k] = v
            # closures: nested functions see the enclosing environment
            if g.parent is not None:
                for k, v in env.items():
                    cenv.setdefault(k, v)
            r = self._visit(g, cenv, depth + 1, stack + (g.qualname,))
            if ret.kind == "unknown":
                ret = r
        return ret
