"""Pure-helper inlining for the affine abstract interpreter (absint).

A call `self.m(a, b)` (method found through the class hierarchy) or `helper(a, b)` (module-level function of the
repository) whose body is loop-free is interpreted in a sub-environment with the parameters bound to the caller's abstract
values; if every non-raising path returns the same kind of value and there is exactly one such path, that value is the
value of the call.  Attribute reads on a parameter (`ctx.depth` inside a helper whose parameter is called `context`)
are bound to the caller's value of the same attribute on the argument expression.  This makes rules that evaluate
expressions insensitive to "extract method" refactorings."""
from __future__ import annotations

import ast
from typing import Any, Optional

from .absint import Env, Lin, Opaque, evaluate, interp
from .astutil import call_name
from .frontend import ClassInfo, FunctionInfo, Program, is_stub


def make_inline_hook(prog: Program, cls: Optional[ClassInfo], module, max_depth: int = 3, skip: tuple = ()):
    stack: list[str] = []
    cls_stack: list = []

    def _super_target(fn: ast.AST) -> Optional[FunctionInfo]:
        """super().m(...) : the next definition of m after the class whose method is being interpreted"""
        if not (isinstance(fn, ast.Attribute) and isinstance(fn.value, ast.Call) and isinstance(fn.value.func, ast.Name)
                and fn.value.func.id == "super" and not fn.value.args and cls is not None):
            return None
        cur = cls_stack[-1] if cls_stack else cls
        mro = prog.mro(cls)
        names = [k.fullname for k in mro]
        start = names.index(cur.fullname) + 1 if cur is not None and cur.fullname in names else 1
        for k in mro[start:]:
            if fn.attr in k.methods:
                return k.methods[fn.attr]
        return None

    def _record_class(name: str):
        full = prog.resolve_name(module, name) if module is not None else None
        ci = prog.classes.get(full) if full else None
        if ci is None:
            return None, []
        from .frontend import decorators as _decos, norm as _norm
        is_rec = any(_norm(b).split(".")[-1] == "NamedTuple" for b in ci.node.bases) or any(d.split(".")[-1].split("(")[0] == "dataclass" for d in _decos(ci.node))
        if not is_rec or "__init__" in ci.methods or "__post_init__" in ci.methods or "__new__" in ci.methods:
            return None, []
        fields = [st.target.id for st in ci.node.body if isinstance(st, ast.AnnAssign) and isinstance(st.target, ast.Name)]
        return ci, fields

    def _record_hook(env: Env, call: ast.Call) -> Any:
        """Cls(a, b) for a NamedTuple / dataclass of the repository: a record of abstract values; rec.method(args): the method inlined with the record's
        fields as self.<field>"""
        from .absint import RecV
        fn = call.func
        if isinstance(fn, ast.Name) and fn.id not in env.vars:
            ci, fields = _record_class(fn.id)
            if ci is not None and len(call.args) + len(call.keywords) == len(fields) and not any(isinstance(a, ast.Starred) for a in call.args):
                vals = {}
                for n_, a_ in zip(fields, call.args):
                    vals[n_] = evaluate(env, a_)
                for k_ in call.keywords:
                    if k_.arg not in fields:
                        return None
                    vals[k_.arg] = evaluate(env, k_.value)
                return RecV(ci, vals) if len(vals) == len(fields) else None
            return None
        if isinstance(fn, ast.Attribute) and isinstance(fn.value, (ast.Call, ast.Name)) and not (isinstance(fn.value, ast.Name) and fn.value.id == "self") \
                and len(stack) < max_depth:
            if isinstance(fn.value, ast.Name) and not isinstance(env.vars.get(fn.value.id), RecV):
                return None
            recv = evaluate(env, fn.value)
            if not isinstance(recv, RecV):
                return None
            target = prog.lookup_method(recv.cls, fn.attr)
            if target is None or not isinstance(target.node, ast.FunctionDef) or target.fullname in stack or is_stub(target.node) \
                    or any(isinstance(x, (ast.For, ast.While, ast.Try, ast.With, ast.Yield, ast.YieldFrom)) for x in ast.walk(target.node)):
                return None
            a = target.node.args
            names = [x.arg for x in a.posonlyargs + a.args][1:]
            if len(call.args) > len(names):
                return None
            sub = env.copy()
            sub.facts = env.facts
            for p_, av in zip(names, call.args):
                sub.vars[p_] = evaluate(env, av)
            for k_ in call.keywords:
                if k_.arg:
                    sub.vars[k_.arg] = evaluate(env, k_.value)
            for f_, v_ in recv.fields.items():
                sub.vars[f"self.{f_}"] = v_
            stack.append(target.fullname)
            cls_stack.append(recv.cls)
            try:
                outs = interp(target.node.body, sub)
            finally:
                stack.pop()
                cls_stack.pop()
            live = [o for o in outs if o.kind != "raise"]
            if len(live) == 1 and live[0].kind == "return" and live[0].value is not None:
                return live[0].value
            return Opaque(f"method {target.name} of a record has {len(live)} returning paths")
        return None

    def hook(env: Env, call: ast.Call) -> Any:
        r_ = _record_hook(env, call)
        if r_ is not None:
            return r_
        target: Optional[FunctionInfo] = None
        fn = call.func
        if _super_target(fn) is not None:
            target = _super_target(fn)
            params_off = 1
        elif isinstance(fn, ast.Attribute) and isinstance(fn.value, ast.Name) and fn.value.id == "self" and cls is not None:
            target = prog.lookup_method(cls, fn.attr)
            params_off = 1
            if target is not None:
                from .frontend import decorators as _decos
                if any(d.split(".")[-1] == "staticmethod" for d in _decos(target.node)):
                    params_off = 0
        elif isinstance(fn, ast.Name) and fn.id not in env.vars and module is not None:
            full = prog.resolve_name(module, fn.id)
            target = prog.functions.get(full) if full else None
            if target is not None and (target.cls is not None or target.parent is not None):
                target = None
            params_off = 0
        if target is None or call_name(call) in skip or is_stub(target.node) or target.fullname in stack or len(stack) >= max_depth:
            return None
        if not isinstance(target.node, (ast.FunctionDef, ast.AsyncFunctionDef)):
            return None
        if any(isinstance(x, (ast.For, ast.While, ast.Try, ast.With, ast.Yield, ast.YieldFrom)) for x in ast.walk(target.node)):
            return None
        a = target.node.args
        names = [x.arg for x in a.posonlyargs + a.args][params_off:]
        defaults = dict(zip([x.arg for x in a.args][len(a.args) - len(a.defaults):], a.defaults))
        bound: dict[str, ast.AST] = {}
        for p_, av in zip(names, call.args):
            bound[p_] = av
        for k in call.keywords:
            if k.arg:
                bound[k.arg] = k.value
        sub = env.copy()
        sub.facts = env.facts       # share the facts: draws and assumptions made inside are visible to the caller
        for p_ in names:
            if p_ in bound:
                sub.vars[p_] = evaluate(env, bound[p_])
            elif p_ in defaults:
                sub.vars[p_] = evaluate(env, defaults[p_])
            else:
                return None
        # attribute reads on parameters: bind to the caller's view of the same attribute of the argument
        for x in ast.walk(target.node):
            if isinstance(x, ast.Attribute) and isinstance(x.value, ast.Name) and x.value.id in bound and x.value.id != "self":
                key = f"{x.value.id}.{x.attr}"
                if key not in sub.vars:
                    arg = bound[x.value.id]
                    sub.vars[key] = evaluate(env, ast.copy_location(ast.Attribute(value=arg, attr=x.attr, ctx=ast.Load()), arg))
        stack.append(target.fullname)
        cls_stack.append(target.cls)
        try:
            body = target.node.body
            outs = interp(body, sub)
        finally:
            stack.pop()
            cls_stack.pop()
        live = [o for o in outs if o.kind != "raise"]
        if len(live) == 1 and live[0].kind == "return" and live[0].value is not None:
            # attribute stores made by the helper are visible to the caller
            for k, v in live[0].env.vars.items():
                if k.startswith("self."):
                    env.vars[k] = v
            return live[0].value
        if 1 < len(live) <= 8 and all(o.kind == "return" and isinstance(o.value, Lin) for o in live):
            # several returning paths (typically an if-expression on a draw): the caller continues with a fresh symbol
            # bounded below / above by every path value that is provably a lower / upper bound of all path values,
            # each comparison decided under the facts of its own path; only the facts established before the first fork
            # (they are shared with the caller) and these bounds survive - a sound join, never a witness
            from .absint import entails_ge0
            f = env.facts
            if env.choices is not None:
                # the rule enumerates the returning paths itself (exact, witnesses possible): follow the scripted one
                site = (target.name, getattr(call, "lineno", 0), getattr(call, "col_offset", 0))
                env.choices["log"][site] = len(live)
                k = env.choices["script"].get(site)
                if k is not None and k < len(live):
                    o = live[k]
                    pf = o.env.facts
                    f.ge0[:] = pf.ge0
                    f.exact.clear(); f.exact.update(pf.exact)
                    f.ints.clear(); f.ints.update(pf.ints)
                    f.notes[:] = pf.notes
                    f._n = pf._n
                    f.defs[:] = pf.defs
                    f.__dict__["_fdiv_cache"] = dict(pf.__dict__.get("_fdiv_cache", {}))
                    for k_, v_ in o.env.vars.items():
                        if k_.startswith("self."):
                            env.vars[k_] = v_
                    return o.value
            f._n = max([f._n] + [o.env.facts._n for o in live])
            known: set[str] = set(f.ints) | set(f.exact)
            for g in f.ge0:
                known |= g.syms()
            for v in env.vars.values():
                if isinstance(v, Lin):
                    known |= v.syms()

            def integral(o) -> bool:
                return all(s in o.env.facts.ints for s in o.value.syms()) and o.value.const.denominator == 1 \
                    and all(c.denominator == 1 for c in o.value.coef.values())
            r = f.fresh("join", exact=False, integer=all(integral(o) for o in live))
            cands = []
            for o in live:
                if o.value not in cands and o.value.syms() <= known:
                    cands.append(o.value)
            for cand in cands:
                if all(entails_ge0(o.env.facts, o.value - cand) for o in live):
                    f.add_ge(r, cand)
                if all(entails_ge0(o.env.facts, cand - o.value) for o in live):
                    f.add_le(r, cand)
            keys = set()
            for o in live:
                keys |= {k for k in o.env.vars if k.startswith("self.")}
            for k in keys:
                vals = [o.env.vars.get(k) for o in live]
                if all(isinstance(v, Lin) and v == vals[0] for v in vals):
                    env.vars[k] = vals[0]
                elif any(v is not env.vars.get(k) for v in vals):
                    env.vars[k] = Opaque("attribute stored on some returning paths of a helper")
            return r
        return Opaque(f"helper {target.name} has {len(live)} returning paths")

    def assume_hook(env: Env, call: ast.Call, polarity: bool) -> bool:
        """a branch on  self.pred(a, b)  where pred's body is 'return <expr>': assume <expr> (with the arguments bound)"""
        from .absint import assume
        fn = call.func
        target = None
        if isinstance(fn, ast.Attribute) and isinstance(fn.value, ast.Name) and fn.value.id == "self" and cls is not None:
            target, off = prog.lookup_method(cls, fn.attr), 1
        elif isinstance(fn, ast.Name) and fn.id not in env.vars and module is not None:
            full = prog.resolve_name(module, fn.id)
            target, off = (prog.functions.get(full) if full else None), 0
            if target is not None and (target.cls is not None or target.parent is not None):
                target = None
        if target is None or call_name(call) in skip or not isinstance(target.node, (ast.FunctionDef, ast.AsyncFunctionDef)):
            return False
        body = [b for b in target.node.body if not (isinstance(b, ast.Expr) and isinstance(b.value, ast.Constant))]
        if len(body) != 1 or not isinstance(body[0], ast.Return) or body[0].value is None:
            return False
        a = target.node.args
        names = [x.arg for x in a.posonlyargs + a.args][off:]
        if len(call.args) > len(names):
            return False
        sub = env.copy()
        sub.facts = env.facts
        for p_, av in zip(names, call.args):
            sub.vars[p_] = evaluate(env, av)
        for k in call.keywords:
            if k.arg:
                sub.vars[k.arg] = evaluate(env, k.value)
        assume(sub, body[0].value, polarity)
        return True

    hook.assume = assume_hook
    return hook
