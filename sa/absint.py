"""E2: a small abstract interpreter over an affine relational domain.

Values are affine forms over *symbols* (parameters, attributes such as ``self.min``, and one
fresh symbol per random draw) together with a store of linear facts ``form >= 0`` (call
preconditions ``lo <= hi``, ``__init__`` asserts, the range of each draw).  Entailment of
``e >= 0`` is decided by Fourier-Motzkin elimination over the rationals (sound for the
integers); there is no SMT solver and no path condition is exported: the domain is the classic
polyhedral one restricted to what the rules need.  Every symbol carries an *exactness* bit:
a draw symbol ranges over **every** integer (or real) of its interval by the RandomSource
contract, so a model of the facts that falsifies a containment is an attainable corner and can be
printed as a witness.  Values produced by ``pow``, ``round``, ``log10``, float division etc. are
*inexact* over-approximations: a failed containment involving them is reported as *unproven*,
never as a violation.
"""
from __future__ import annotations

import ast
import itertools
from dataclasses import dataclass, field
from fractions import Fraction
from typing import Any, Callable, Optional


# ----------------------------------------------------------------------------- affine forms
class Lin:
    __slots__ = ("coef", "const")

    def __init__(self, coef: Optional[dict[str, Fraction]] = None, const: Any = 0):
        self.coef = {k: Fraction(v) for k, v in (coef or {}).items() if v != 0}
        self.const = Fraction(const)

    @staticmethod
    def sym(name: str) -> "Lin":
        return Lin({name: 1}, 0)

    @staticmethod
    def c(v) -> "Lin":
        return Lin({}, v)

    def __add__(self, o: "Lin") -> "Lin":
        d = dict(self.coef)
        for k, v in o.coef.items():
            d[k] = d.get(k, 0) + v
        return Lin(d, self.const + o.const)

    def __neg__(self) -> "Lin":
        return Lin({k: -v for k, v in self.coef.items()}, -self.const)

    def __sub__(self, o: "Lin") -> "Lin":
        return self + (-o)

    def scale(self, k) -> "Lin":
        k = Fraction(k)
        return Lin({s: v * k for s, v in self.coef.items()}, self.const * k)

    def is_const(self) -> bool:
        return not self.coef

    def syms(self) -> set[str]:
        return set(self.coef)

    def __eq__(self, o) -> bool:
        return isinstance(o, Lin) and self.coef == o.coef and self.const == o.const

    def __hash__(self):
        return hash((tuple(sorted(self.coef.items())), self.const))

    def __repr__(self) -> str:
        parts = []
        for k in sorted(self.coef):
            v = self.coef[k]
            parts.append(("" if v == 1 else "-" if v == -1 else f"{v}*") + k)
        if self.const != 0 or not parts:
            parts.append(str(self.const))
        return " + ".join(parts).replace("+ -", "- ")

    def eval(self, model: dict[str, Fraction]) -> Fraction:
        return self.const + sum(v * model[k] for k, v in self.coef.items())


# ----------------------------------------------------------------------------- fact store
@dataclass
class Facts:
    ge0: list[Lin] = field(default_factory=list)  # each form >= 0
    exact: dict[str, bool] = field(default_factory=dict)  # symbol -> exactness (default: True for parameters)
    ints: set[str] = field(default_factory=set)
    notes: list[str] = field(default_factory=list)
    _n: int = 0
    defs: list[tuple] = field(default_factory=list)  # (symbol, 'min'|'max', Lin a, Lin b): exact definitions checked on models

    def copy(self) -> "Facts":
        c = Facts(list(self.ge0), dict(self.exact), set(self.ints), list(self.notes), self._n, list(self.defs))
        c.__dict__["_fdiv_cache"] = dict(self.__dict__.get("_fdiv_cache", {}))
        return c

    def fresh(self, hint: str, exact: bool = True, integer: bool = True) -> Lin:
        self._n += 1
        name = f"{hint}#{self._n}"
        self.exact[name] = exact
        if integer:
            self.ints.add(name)
        return Lin.sym(name)

    def add_ge(self, a: Lin, b: Lin) -> None:  # a >= b
        self.ge0.append(a - b)

    def add_le(self, a: Lin, b: Lin) -> None:
        self.ge0.append(b - a)

    def is_exact(self, l: Lin) -> bool:
        return all(self.exact.get(s, True) for s in l.syms())


def _tighten(c: Lin, ints: set[str]) -> Lin:
    """Integer tightening of  sum a_i x_i + c >= 0  when every x_i is an integer symbol: scale to integer
    coefficients, divide by their gcd and floor the constant (a Gomory-style cut; sound for integers)."""
    if not c.coef or not all(s in ints for s in c.coef):
        return c
    from math import gcd, floor
    den = 1
    for v in c.coef.values():
        den = den * v.denominator // gcd(den, v.denominator)
    coefs = {k: int(v * den) for k, v in c.coef.items()}
    g = 0
    for v in coefs.values():
        g = gcd(g, abs(v))
    if g == 0:
        return c
    const = Fraction(c.const * den, g)
    return Lin({k: Fraction(v, g) for k, v in coefs.items()}, floor(const))


def _fm_infeasible(cons: list[Lin], ints: Optional[set[str]] = None) -> bool:
    """Is the system {c >= 0 for c in cons} infeasible?  Fourier-Motzkin over the rationals, with integer
    tightening of every derived constraint whose symbols are all integer-valued."""
    ints = ints or set()
    cons = [_tighten(c, ints) for c in cons]
    syms = sorted({s for c in cons for s in c.syms()})
    for s in syms:
        pos, neg, rest = [], [], []
        for c in cons:
            k = c.coef.get(s, 0)
            (pos if k > 0 else neg if k < 0 else rest).append(c)
        new = rest
        for p in pos:
            for n in neg:
                kp, kn = p.coef[s], -n.coef[s]
                comb = p.scale(kn) + n.scale(kp)
                comb.coef.pop(s, None)
                new.append(_tighten(comb, ints))
        # prune trivial and duplicates
        seen, cons = set(), []
        for c in new:
            if c.is_const():
                if c.const < 0:
                    return True
                continue
            if c not in seen:
                seen.add(c)
                cons.append(c)
        if len(cons) > 4000:
            return False  # give up: cannot prove
    return any(c.is_const() and c.const < 0 for c in cons)


def entails_ge0(facts: Facts, l: Lin, strict: bool = False, integer: bool = True) -> bool:
    """facts |= l >= 0   (or l > 0 when strict).  Integer reasoning: l > 0 <=> l >= 1 when l is integral."""
    if l.is_const():
        return l.const > 0 if strict else l.const >= 0
    if strict and integer and all(s in facts.ints for s in l.syms()) and all(v.denominator == 1 for v in l.coef.values()):
        neg = -l  # not(l >= 1)  <=>  l <= 0  <=>  -l >= 0
        return _fm_infeasible(facts.ge0 + [neg], facts.ints)
    if strict:
        # rationals: l > 0 fails iff l <= 0 feasible
        return _fm_infeasible(facts.ge0 + [-l], facts.ints)
    # not(l >= 0) <=> l <= -1 for integers, l < 0 for reals (relaxed to l <= -eps: use l <= -1 when integral)
    if integer and all(s in facts.ints for s in l.syms()) and all(v.denominator == 1 for v in l.coef.values()) \
            and l.const.denominator == 1:
        return _fm_infeasible(facts.ge0 + [-l - Lin.c(1)], facts.ints)
    # real-valued: prove via closure: l < 0 infeasible.  FM handles only non-strict; l <= -eps for tiny eps is
    # implied infeasible if l <= 0 together with l != 0 ... we stay sound by testing l <= -1/10**9
    return _fm_infeasible(facts.ge0 + [-l - Lin.c(Fraction(1, 10**9))], facts.ints)


def _defs_ok(m: dict, defs: list[tuple]) -> bool:
    """Exact (possibly non-linear) definitions of auxiliary symbols, checked on a candidate model."""
    for (nm, kind, a, b) in defs:
        if m.get(nm) is None or not (a.syms() | b.syms()) <= set(m):
            continue
        x, y = a.eval(m), b.eval(m)
        if kind == "min" and m[nm] != min(x, y):
            return False
        if kind == "max" and m[nm] != max(x, y):
            return False
        if kind == "mul" and m[nm] != x * y:
            return False
        if kind == "div" and (y == 0 or m[nm] != x / y):
            return False
    return True


def _fm_model(cons: list[Lin], ints: set[str]) -> Optional[dict[str, Fraction]]:
    """A model of {c >= 0} by Fourier-Motzkin elimination and back-substitution (integers preferred)."""
    from math import ceil, floor
    syms = sorted({s for c in cons for s in c.syms()})
    stages = []
    cur = [_tighten(c, ints) for c in cons]
    for s in syms:
        pos = [c for c in cur if c.coef.get(s, 0) > 0]
        neg = [c for c in cur if c.coef.get(s, 0) < 0]
        rest = [c for c in cur if c.coef.get(s, 0) == 0]
        stages.append((s, pos, neg))
        new = list(rest)
        for p in pos:
            for n in neg:
                comb = p.scale(-n.coef[s]) + n.scale(p.coef[s])
                comb.coef.pop(s, None)
                new.append(_tighten(comb, ints))
        seen, cur = set(), []
        for c in new:
            if c.is_const():
                if c.const < 0:
                    return None
            elif c not in seen:
                seen.add(c)
                cur.append(c)
        if len(cur) > 3000:
            return None
    model: dict[str, Fraction] = {}
    for s, pos, neg in reversed(stages):
        lo_b, hi_b = None, None
        for c in pos:   # k*s + rest >= 0  ->  s >= -rest/k
            k = c.coef[s]
            rest = Lin({a: b for a, b in c.coef.items() if a != s}, c.const)
            if not rest.syms() <= set(model):
                continue
            v = -rest.eval(model) / k
            lo_b = v if lo_b is None else max(lo_b, v)
        for c in neg:
            k = c.coef[s]
            rest = Lin({a: b for a, b in c.coef.items() if a != s}, c.const)
            if not rest.syms() <= set(model):
                continue
            v = rest.eval(model) / (-k)
            hi_b = v if hi_b is None else min(hi_b, v)
        if lo_b is not None and hi_b is not None and lo_b > hi_b:
            return None
        if lo_b is None and hi_b is None:
            val = Fraction(0)
        elif lo_b is None:
            val = min(Fraction(0), Fraction(floor(hi_b))) if s in ints else min(Fraction(0), hi_b)
        elif hi_b is None:
            val = max(Fraction(0), Fraction(ceil(lo_b))) if s in ints else max(Fraction(0), lo_b)
        else:
            if s in ints:
                cands = [Fraction(ceil(lo_b)), Fraction(floor(hi_b))]
                val = next((v for v in cands if lo_b <= v <= hi_b), lo_b)
            else:
                val = lo_b
        model[s] = val
    return model


def find_model(facts: Facts, violated: Lin, lo: int = -3, hi: int = 9, limit: int = 200000) -> Optional[dict[str, int]]:
    m = _find_model_small(facts, violated, lo, hi, limit)
    if m is not None:
        return m
    # larger witnesses (e.g. 'width > 1000'): elimination + back-substitution, then verified exactly
    rel_facts = _relevant(facts, violated)
    integral = all(s_ in facts.ints for s_ in violated.syms())
    goal = -violated - (Lin.c(1) if integral else Lin.c(Fraction(1, 1000)))
    fm = _fm_model(rel_facts.ge0 + [goal], facts.ints)
    if fm is None:
        return None
    if any(s_ in facts.ints and v.denominator != 1 for s_, v in fm.items()):
        return None
    if violated.eval({**{k: Fraction(0) for k in violated.syms()}, **fm}) < 0 and all(
            c.eval(fm) >= 0 for c in rel_facts.ge0 if c.syms() <= set(fm)) and _defs_ok(fm, rel_facts.defs):
        return {k: (int(v) if v.denominator == 1 else float(v)) for k, v in fm.items()}
    return None


def _relevant(facts: Facts, violated: Lin) -> Facts:
    rel = set(violated.syms())
    changed = True
    while changed:
        changed = False
        for c in facts.ge0:
            cs = c.syms()
            if cs & rel and not cs <= rel:
                rel |= cs
                changed = True
        for d in facts.defs:
            ds = d[2].syms() | d[3].syms() | {d[0]}
            if ds & rel and not ds <= rel:
                rel |= ds
                changed = True
    return Facts([c for c in facts.ge0 if c.syms() <= rel and c.syms()], facts.exact, facts.ints, [], 0,
                 [d for d in facts.defs if ({d[0]} | d[2].syms() | d[3].syms()) <= rel])


def _find_model_small(facts: Facts, violated: Lin, lo: int = -3, hi: int = 9, limit: int = 200000) -> Optional[dict[str, int]]:
    """Small integer assignment satisfying every fact with ``violated < 0`` (a concrete witness)."""
    # only the facts connected (through shared symbols) to the violated form matter for a witness
    rel = set(violated.syms())
    changed = True
    while changed:
        changed = False
        for c in facts.ge0:
            cs = c.syms()
            if cs & rel and not cs <= rel:
                rel |= cs
                changed = True
        for d in facts.defs:
            ds = d[2].syms() | d[3].syms() | {d[0]}
            if ds & rel and not ds <= rel:
                rel |= ds
                changed = True
    facts = Facts([c for c in facts.ge0 if c.syms() <= rel and c.syms()], facts.exact, facts.ints, [], 0,
                  [d for d in facts.defs if ({d[0]} | d[2].syms() | d[3].syms()) <= rel])
    syms = sorted(rel)
    if len(syms) > 7:
        return None
    n = 0
    order = sorted(range(lo, hi + 1), key=lambda v: (abs(v), v < 0))
    for vals in itertools.product(order, repeat=len(syms)):
        n += 1
        if n > limit:
            return None
        m = dict(zip(syms, map(Fraction, vals)))
        if violated.eval(m) < 0 and all(c.eval(m) >= 0 for c in facts.ge0) and _defs_ok(m, facts.defs):
            return {k: int(v) for k, v in m.items()}
    return None


# ----------------------------------------------------------------------------- abstract values
class RecV:
    """a value of a small record class of the repository (NamedTuple / dataclass): its fields hold abstract values"""
    def __init__(self, cls, fields: dict):
        self.cls, self.fields = cls, fields

    def __repr__(self):
        return f"{getattr(self.cls, 'name', '?')}({', '.join(f'{k}={v!r}' for k, v in self.fields.items())})"


@dataclass
class Tup:
    items: list[Any]


@dataclass
class SeqV:
    length: Any  # Lin
    elem: Any
    kind: str = "list"  # 'list' | 'str'


@dataclass
class Member:
    of: str  # symbol naming the container expression


@dataclass
class B3:
    v: Optional[bool]


@dataclass
class Opaque:
    why: str = ""


HOLDS, FAILS, UNPROVEN, UNDECIDED = "holds", "fails", "unproven", "undecided"


@dataclass
class Verdict:
    status: str
    detail: str = ""
    witness: Any = None


def prove_cmp(facts: Facts, a: Any, op: ast.cmpop, b: Any) -> Verdict:
    """Decide  a <op> b  for all models of the facts."""
    if isinstance(a, Lin) and isinstance(b, Lin):
        if isinstance(op, ast.LtE):
            goal, strict = b - a, False
        elif isinstance(op, ast.Lt):
            goal, strict = b - a, True
        elif isinstance(op, ast.GtE):
            goal, strict = a - b, False
        elif isinstance(op, ast.Gt):
            goal, strict = a - b, True
        elif isinstance(op, ast.Eq):
            v1 = prove_cmp(facts, a, ast.LtE(), b)
            if v1.status != HOLDS:
                return v1
            return prove_cmp(facts, a, ast.GtE(), b)
        elif isinstance(op, ast.NotEq):
            integral = all(s_ in facts.ints for s_ in (a - b).syms())
            if entails_ge0(facts, a - b, strict=True, integer=integral) or entails_ge0(facts, b - a, strict=True, integer=integral):
                return Verdict(HOLDS)
            if entails_ge0(facts, a - b) and entails_ge0(facts, b - a):
                return Verdict(FAILS, f"{a!r} != {b!r} is false: the two are equal under the facts", {})
            return Verdict(UNPROVEN, f"cannot prove {a!r} != {b!r}")
        else:
            return Verdict(UNDECIDED, f"comparison {type(op).__name__} not supported")
        integral = all(s in facts.ints for s in goal.syms())
        if entails_ge0(facts, goal, strict=strict, integer=integral):
            return Verdict(HOLDS)
        viol = goal if not strict else goal - Lin.c(1) if integral else goal - Lin.c(Fraction(1, 1000))
        exact = facts.is_exact(goal)
        if exact:
            m = find_model(facts, viol)
            if m is not None:
                return Verdict(FAILS, f"{a!r} {_opname(op)} {b!r} is false at {m}", m)
        return Verdict(UNPROVEN, f"cannot prove {a!r} {_opname(op)} {b!r}" + ("" if exact else " (inexact value involved)"))
    return Verdict(UNDECIDED, f"non-numeric comparison {a!r} {_opname(op)} {b!r}")


def _opname(op: ast.cmpop) -> str:
    return {ast.Lt: "<", ast.LtE: "<=", ast.Gt: ">", ast.GtE: ">=", ast.Eq: "==", ast.NotEq: "!=",
            ast.In: "in", ast.NotIn: "not in", ast.Is: "is", ast.IsNot: "is not"}.get(type(op), "?")


# ----------------------------------------------------------------------------- expression evaluation
class Env:
    """name -> abstract value; attribute paths such as 'self.min' are symbols created on demand."""

    def __init__(self, facts: Optional[Facts] = None, int_attrs: bool = True):
        self.vars: dict[str, Any] = {}
        self.facts = facts or Facts()
        self.int_attrs = int_attrs
        self.hooks: list[Callable[["Env", ast.Call], Any]] = []  # call models, tried in order
        self.sub_hooks: list[Callable[["Env", ast.Subscript], Any]] = []  # subscript models
        self.count_assumption: Optional[Callable[[Lin], None]] = None  # called when a loop count is assumed >= 0
        self.comp_hooks: list[Callable[["Env", ast.AST], Any]] = []  # comprehension models
        self.assume_hooks: list[Callable[["Env", ast.Call, bool], bool]] = []  # branch conditions that are helper calls
        self.bool_hooks: list[Callable[["Env", ast.BoolOp], Any]] = []  # value semantics of 'a or b' over abstract objects
        # multi-path helpers: {'script': {site: index of the returning path to follow}, 'log': {site: number of returning paths}}; shared by copies
        self.choices: Optional[dict] = None

    def copy(self) -> "Env":
        e = Env(self.facts.copy(), self.int_attrs)
        e.vars = dict(self.vars)
        e.hooks = list(self.hooks)
        e.sub_hooks = list(self.sub_hooks)
        e.count_assumption = self.count_assumption
        e.comp_hooks = list(self.comp_hooks)
        e.assume_hooks = list(self.assume_hooks)
        e.bool_hooks = list(self.bool_hooks)
        e.choices = self.choices
        return e

    def symbol(self, path: str, integer: bool = True) -> Lin:
        if integer:
            self.facts.ints.add(path)
        return Lin.sym(path)


def attr_path(e: ast.AST) -> Optional[str]:
    parts = []
    while isinstance(e, ast.Attribute):
        parts.append(e.attr)
        e = e.value
    if isinstance(e, ast.Name):
        parts.append(e.id)
        return ".".join(reversed(parts))
    return None


def evaluate(env: Env, e: ast.AST) -> Any:
    f = env.facts
    if isinstance(e, ast.Constant):
        if isinstance(e.value, bool):
            return B3(e.value)
        if isinstance(e.value, (int, float)):
            return Lin.c(Fraction(e.value).limit_denominator(10**12)) if isinstance(e.value, float) else Lin.c(e.value)
        if isinstance(e.value, str):
            return SeqV(Lin.c(len(e.value)), Opaque("char"), "str")
        return Opaque("const")
    if isinstance(e, ast.Name):
        if e.id in env.vars:
            return env.vars[e.id]
        return env.symbol(e.id)
    if isinstance(e, ast.Attribute):
        if isinstance(e.value, ast.Name) and isinstance(env.vars.get(e.value.id), RecV):
            return env.vars[e.value.id].fields.get(e.attr, Opaque("attr of a record"))
        p = attr_path(e)
        if p is not None:
            if p in env.vars:
                return env.vars[p]
            return env.symbol(p)
        return Opaque("attr")
    if isinstance(e, ast.UnaryOp):
        v = evaluate(env, e.operand)
        if isinstance(e.op, ast.USub) and isinstance(v, Lin):
            return -v
        if isinstance(e.op, ast.UAdd) and isinstance(v, Lin):
            return v
        if isinstance(e.op, ast.Not):
            b = truth(env, e.operand)
            return B3(None if b.v is None else not b.v)
        return Opaque("unary")
    if isinstance(e, ast.BinOp):
        a, b = evaluate(env, e.left), evaluate(env, e.right)
        if isinstance(a, Lin) and isinstance(b, Lin):
            if isinstance(e.op, ast.Add):
                return a + b
            if isinstance(e.op, ast.Sub):
                return a - b
            if isinstance(e.op, ast.Mult):
                if a.is_const():
                    return b.scale(a.const)
                if b.is_const():
                    return a.scale(b.const)
                r = f.fresh("prod", exact=f.is_exact(a) and f.is_exact(b), integer=False)
                f.defs.append((next(iter(r.syms())), "mul", a, b))
                for x, y in ((a, b), (b, a)):
                    # x in [0,1], y >= 0  =>  0 <= x*y <= y
                    if entails_ge0(f, x) and entails_ge0(f, Lin.c(1) - x) and entails_ge0(f, y):
                        f.add_ge(r, Lin.c(0))
                        f.add_le(r, y)
                        break
                return r
            if isinstance(e.op, ast.FloorDiv) and b.is_const() and b.const > 0 and b.const.denominator == 1:
                # q = a // k  with  k*q <= a <= k*q + (k-1)   (exact relation, q determined by a)
                ck = (repr(a), b.const)
                cache = f.__dict__.setdefault("_fdiv_cache", {})
                if ck in cache:
                    return cache[ck]
                q = f.fresh("fdiv", exact=f.is_exact(a), integer=True)
                cache[ck] = q
                k = b.const
                f.add_ge(a, q.scale(k))
                f.add_le(a, q.scale(k) + Lin.c(k - 1))
                return q
            if isinstance(e.op, ast.Mod):
                # r = a % m in [0, m-1] for m > 0; exact only if a ranges over a complete residue system
                if entails_ge0(f, b, strict=True):
                    if entails_ge0(f, a) and entails_ge0(f, b - a - Lin.c(1)):
                        return a  # already a residue
                    # A value of unknown magnitude (a gene, a power, ...) reduced modulo m is taken to reach every
                    # residue in [0, m-1] (documented assumption: that is what the code relies on); an operand with
                    # known exact bounds wider than m keeps an inexact result.
                    free = any((not f.exact.get(s_, True)) or s_.startswith("gene#") for s_ in a.syms())
                    r = f.fresh("mod", exact=free, integer=True)
                    f.add_ge(r, Lin.c(0))
                    f.add_le(r, b - Lin.c(1))
                    return r
                m0 = find_model(f, b - Lin.c(1)) if f.is_exact(b) else None  # b <= 0 attainable?
                f.notes.append(("bad-modulus", repr(b), m0))
                return Opaque(f"modulus {b!r} not provably positive" + (f" (it is {b.eval({k: Fraction(v) for k, v in m0.items()})} at {m0})" if m0 else ""))
            if isinstance(e.op, ast.Div):
                if b.is_const() and b.const != 0:
                    return a.scale(1 / b.const)
                if not (entails_ge0(f, b, strict=True) or entails_ge0(f, -b, strict=True)):
                    m0 = find_model(f, b) if f.is_exact(b) else None          # b <= -1 ?
                    z = None
                    if f.is_exact(b):
                        fz = f.copy()
                        fz.ge0 += [b, -b]                                        # b == 0 feasible?
                        z = find_model(fz, Lin.c(-1))
                    if z is not None:
                        f.notes.append(("bad-divisor", repr(b), z))
                        return Opaque(f"divisor {b!r} can be 0 at {z}")
                r = f.fresh("quot", exact=f.is_exact(a) and f.is_exact(b), integer=False)
                f.defs.append((next(iter(r.syms())), "div", a, b))
                # a >= 0, b >= 1  =>  0 <= a/b <= a
                if entails_ge0(f, a) and entails_ge0(f, b - Lin.c(1)):
                    f.add_ge(r, Lin.c(0))
                    f.add_le(r, a)
                return r
        if isinstance(a, Opaque):
            return a
        if isinstance(b, Opaque):
            return b
        if isinstance(e.op, ast.Add) and isinstance(a, SeqV) and isinstance(b, SeqV) \
                and isinstance(a.length, Lin) and isinstance(b.length, Lin):
            return SeqV(a.length + b.length, a.elem, a.kind)
        return Opaque("binop")
    if isinstance(e, ast.IfExp):
        t = truth(env, e.test)
        if t.v is True:
            return evaluate(env, e.body)
        if t.v is False:
            return evaluate(env, e.orelse)
        a, b = evaluate(env, e.body), evaluate(env, e.orelse)
        if isinstance(a, Lin) and isinstance(b, Lin) and a == b:
            return a
        return Opaque("ifexp with unknown test")
    if isinstance(e, ast.Tuple):
        return Tup([evaluate(env, x) for x in e.elts])
    if isinstance(e, ast.List):
        if any(isinstance(x, ast.Starred) for x in e.elts):
            total = Lin.c(sum(1 for x in e.elts if not isinstance(x, ast.Starred)))
            elem: Any = Opaque("elem")
            for x in e.elts:
                if isinstance(x, ast.Starred):
                    v = evaluate(env, x.value)
                    if not (isinstance(v, SeqV) and isinstance(v.length, Lin)):
                        return Opaque("list display with an unpacked iterable of unknown length")
                    total = total + v.length
                    elem = v.elem
            return SeqV(total, elem, "list")
        return SeqV(Lin.c(len(e.elts)), evaluate(env, e.elts[0]) if e.elts else Opaque("elem"), "list")
    if isinstance(e, ast.Subscript):
        for h in env.sub_hooks:
            r = h(env, e)
            if r is not None:
                return r
        v = evaluate(env, e.value)
        if isinstance(v, SeqV) and isinstance(e.slice, ast.Slice) and e.slice.step is None and isinstance(v.length, Lin):
            lo_ = evaluate(env, e.slice.lower) if e.slice.lower is not None else Lin.c(0)
            hi_ = evaluate(env, e.slice.upper) if e.slice.upper is not None else v.length
            if isinstance(lo_, Lin) and isinstance(hi_, Lin) and entails_ge0(f, lo_) and entails_ge0(f, hi_ - lo_) \
                    and entails_ge0(f, v.length - hi_):
                return SeqV(hi_ - lo_, v.elem, v.kind)
            return Opaque("slice of a sequence with bounds not provably inside it")
        if isinstance(v, SeqV) and not isinstance(e.slice, ast.Slice):
            return v.elem
        if isinstance(v, Tup) and isinstance(e.slice, ast.Constant) and isinstance(e.slice.value, int):
            try:
                return v.items[e.slice.value]
            except IndexError:
                return Opaque("tuple index")
        p = None
        if isinstance(e.slice, ast.Constant):
            base = attr_path(e.value)
            if base is not None and base.endswith(".shape") and e.slice.value == 0:
                # numpy: len(M) == M.shape[0]
                s_ = env.symbol(f"len({base[:-len('.shape')]})")
                f.add_ge(s_, Lin.c(0))
                return s_
            if base is not None:
                p = f"{base}[{e.slice.value!r}]"
        if p is not None:
            if p in env.vars:
                return env.vars[p]
            return env.symbol(p)
        return Opaque("subscript")
    if isinstance(e, ast.BoolOp):
        for h in env.bool_hooks:
            r = h(env, e)
            if r is not None:
                return r
    if isinstance(e, (ast.Compare, ast.BoolOp)):
        return truth(env, e)
    if isinstance(e, (ast.ListComp, ast.GeneratorExp)):
        for h in env.comp_hooks:
            r = h(env, e)
            if r is not None:
                return r
    if isinstance(e, (ast.ListComp, ast.GeneratorExp)) and len(e.generators) == 1 and not e.generators[0].ifs \
            and not e.generators[0].is_async:
        # [elt for x in range(n)] / [elt for x in <sequence>]: a sequence of the same length
        g = e.generators[0]
        n = None
        sub = env.copy()
        if isinstance(g.iter, ast.Call) and isinstance(g.iter.func, ast.Name) and g.iter.func.id == "range" \
                and len(g.iter.args) == 1 and not g.iter.keywords:
            n = evaluate(env, g.iter.args[0])
            if isinstance(n, Lin) and not entails_ge0(f, n):
                if env.count_assumption is not None:
                    f.add_ge(n, Lin.c(0))
                    env.count_assumption(n)
                else:
                    n = None   # range(negative) is empty: the length would be max(n, 0)
            if isinstance(g.target, ast.Name) and n is not None:
                i = f.fresh(g.target.id, exact=False)
                f.add_ge(i, Lin.c(0))
                f.add_le(i, n - Lin.c(1))
                sub.vars[g.target.id] = i
        else:
            seq = evaluate(env, g.iter)
            if isinstance(seq, SeqV) and isinstance(seq.length, Lin):
                n = seq.length
                if isinstance(g.target, ast.Name):
                    sub.vars[g.target.id] = seq.elem
        if isinstance(n, Lin):
            return SeqV(n, evaluate(sub, e.elt), "list")
        return Opaque("comprehension over an unrecognised iterable")
    if isinstance(e, ast.Call):
        for h in env.hooks:
            r = h(env, e)
            if r is not None:
                return r
        fn = e.func
        name = fn.id if isinstance(fn, ast.Name) else fn.attr if isinstance(fn, ast.Attribute) else ""
        if name == "len" and len(e.args) == 1:
            v = evaluate(env, e.args[0])
            if isinstance(v, SeqV):
                return v.length
            p = attr_path(e.args[0])
            if isinstance(v, Opaque) and isinstance(e.args[0], ast.Name) and e.args[0].id in env.vars:
                # a local bound to a value the analysis could not follow: its length is *some* non-negative integer,
                # not a universally quantified input (no witness may be claimed from it)
                key = f"len({p})"
                if key not in env.vars:
                    s = f.fresh(key, exact=False)
                    f.add_ge(s, Lin.c(0))
                    env.vars[key] = s
                return env.vars[key]
            if p is not None and f"len({p})" in env.vars:
                return env.vars[f"len({p})"]
            if p is not None:
                s = env.symbol(f"len({p})")
                f.add_ge(s, Lin.c(0))
                return s
        if name in ("int", "float") and len(e.args) == 1:
            v = evaluate(env, e.args[0])
            if isinstance(v, (Lin,)):
                return v
            if isinstance(v, B3) and v.v is not None:
                return Lin.c(int(v.v))
            if isinstance(v, B3):
                s = f.fresh("b", exact=True, integer=True)
                f.add_ge(s, Lin.c(0))
                f.add_le(s, Lin.c(1))
                return s
        if name in ("max", "min") and len(e.args) == 2 and not e.keywords:
            a, b = evaluate(env, e.args[0]), evaluate(env, e.args[1])
            if isinstance(a, Lin) and isinstance(b, Lin):
                r = f.fresh(name, exact=f.is_exact(a) and f.is_exact(b), integer=all(s in f.ints for s in (a.syms() | b.syms())))
                if name == "max":
                    f.add_ge(r, a)
                    f.add_ge(r, b)
                else:
                    f.add_le(r, a)
                    f.add_le(r, b)
                # r equals one of them: keep the relational facts we can state linearly
                if entails_ge0(f, a - b):
                    return a if name == "max" else b
                if entails_ge0(f, b - a):
                    return b if name == "max" else a
                f.exact[next(iter(r.syms()))] = False
                return r
        return Opaque(f"call {name}")
    return Opaque(type(e).__name__)


def truth(env: Env, e: ast.AST) -> B3:
    if isinstance(e, ast.Constant):
        return B3(bool(e.value))
    if isinstance(e, ast.UnaryOp) and isinstance(e.op, ast.Not):
        b = truth(env, e.operand)
        return B3(None if b.v is None else not b.v)
    if isinstance(e, ast.BoolOp):
        vs = [truth(env, v).v for v in e.values]
        if isinstance(e.op, ast.And):
            if any(v is False for v in vs):
                return B3(False)
            return B3(True if all(v is True for v in vs) else None)
        if any(v is True for v in vs):
            return B3(True)
        return B3(False if all(v is False for v in vs) else None)
    if isinstance(e, ast.Call) and isinstance(e.func, ast.Name) and e.func.id in ("all", "any") and len(e.args) == 1 \
            and isinstance(e.args[0], (ast.GeneratorExp, ast.ListComp)) and len(e.args[0].generators) == 1:
        g = e.args[0].generators[0]
        seq = evaluate(env, g.iter)
        if isinstance(seq, SeqV) and isinstance(g.target, ast.Name) and not g.ifs:
            sub = env.copy()
            sub.vars[g.target.id] = seq.elem
            r = truth(sub, e.args[0].elt)
            if e.func.id == "all":
                return B3(True if r.v is True else None)
            return B3(None)
        return B3(None)
    if isinstance(e, ast.Compare):
        left = evaluate(env, e.left)
        res: Optional[bool] = True
        for op, rhs in zip(e.ops, e.comparators):
            if isinstance(op, (ast.In, ast.NotIn)):
                pth = attr_path(rhs)
                isin = isinstance(left, Member) and pth is not None and left.of == pth
                if isinstance(op, ast.In) and isin:
                    left = evaluate(env, rhs)
                    continue
                return B3(False if (isinstance(op, ast.NotIn) and isin) else None)
            right = evaluate(env, rhs)
            v = prove_cmp(env.facts, left, op, right)
            if v.status == HOLDS:
                pass
            else:
                # maybe provably false?
                neg = {ast.Lt: ast.GtE, ast.LtE: ast.Gt, ast.Gt: ast.LtE, ast.GtE: ast.Lt, ast.Eq: ast.NotEq,
                       ast.NotEq: ast.Eq}.get(type(op))
                if neg is not None and isinstance(left, Lin) and isinstance(right, Lin) \
                        and prove_cmp(env.facts, left, neg(), right).status == HOLDS:
                    return B3(False)
                res = None
            left = right
        return B3(res)
    v = evaluate(env, e)
    if isinstance(v, B3):
        return v
    return B3(None)


def assume(env: Env, test: ast.AST, polarity: bool) -> None:
    """Add the linear content of a branch condition to the facts (best effort, sound: only adds implied facts)."""
    f = env.facts
    if isinstance(test, ast.UnaryOp) and isinstance(test.op, ast.Not):
        return assume(env, test.operand, not polarity)
    if isinstance(test, ast.Call):
        for h in env.assume_hooks:
            if h(env, test, polarity):
                return
        return
    if isinstance(test, ast.Name) and hasattr(env.vars.get(test.id), "with_truth"):
        env.vars[test.id] = env.vars[test.id].with_truth(polarity)   # e.g. a filtered list known (non-)empty on this path
        return
    if isinstance(test, (ast.Name, ast.Attribute, ast.BinOp)):
        v_ = evaluate(env, test)
        if isinstance(v_, Lin):
            # truthiness of a number: zero / non-zero (a non-zero integer known to be non-negative is at least one)
            integral = all(s_ in f.ints for s_ in v_.syms())
            if not polarity:
                f.add_le(v_, Lin.c(0))
                f.add_ge(v_, Lin.c(0))
            elif integral and entails_ge0(f, v_):
                f.add_ge(v_, Lin.c(1))
            elif integral and entails_ge0(f, -v_):
                f.add_le(v_, Lin.c(-1))
        return
    if isinstance(test, ast.BoolOp):
        if isinstance(test.op, ast.And) and polarity:
            for v in test.values:
                assume(env, v, True)
        elif isinstance(test.op, ast.Or) and not polarity:
            for v in test.values:
                assume(env, v, False)
        return
    if isinstance(test, ast.Compare):
        left = evaluate(env, test.left)
        if len(test.ops) > 1 and not polarity:
            return
        for op, rhs in zip(test.ops, test.comparators):
            right = evaluate(env, rhs)
            if isinstance(left, Lin) and isinstance(right, Lin):
                integral = all(s in f.ints for s in (left.syms() | right.syms()))
                one = Lin.c(1) if integral else Lin.c(0)
                t = type(op)
                if not polarity:
                    t = {ast.Lt: ast.GtE, ast.LtE: ast.Gt, ast.Gt: ast.LtE, ast.GtE: ast.Lt, ast.Eq: ast.NotEq,
                         ast.NotEq: ast.Eq}.get(t)
                if t is ast.Lt:
                    f.add_le(left + one, right)
                elif t is ast.LtE:
                    f.add_le(left, right)
                elif t is ast.Gt:
                    f.add_ge(left, right + one)
                elif t is ast.GtE:
                    f.add_ge(left, right)
                elif t is ast.Eq:
                    f.add_le(left, right)
                    f.add_ge(left, right)
                elif t is ast.NotEq and integral:
                    if entails_ge0(f, right - left):
                        f.add_le(left + Lin.c(1), right)
                    elif entails_ge0(f, left - right):
                        f.add_ge(left, right + Lin.c(1))
            left = right


# ----------------------------------------------------------------------------- function interpreter
@dataclass
class Outcome:
    env: Env
    value: Any            # abstract return value (None when the path falls off the end)
    conds: list[str]
    kind: str = "return"  # 'return' | 'raise' | 'fallthrough' | 'unsupported'
    node: Any = None
    guards: Any = None    # [(test, polarity, env before the branch)] for the undetermined branch conditions of the path


def interp(body: list[ast.stmt], env: Env, max_paths: int = 128, for_hook=None) -> list[Outcome]:
    """Interpret a loop-free statement list; forks on if-statements and on if-expressions whose test is unknown
    (when they are the whole right-hand side of an assignment / return).  Loops and other unsupported statements
    end the path with kind 'unsupported' (the rule decides what to do with it)."""
    out: list[Outcome] = []

    def fork_value(e: Env, conds: list[str], expr: ast.AST):
        """yield (env, conds, value) alternatives for an expression, splitting a top-level unknown IfExp"""
        if isinstance(expr, ast.IfExp):
            t = truth(e, expr.test)
            if t.v is None:
                a, b = e.copy(), e.copy()
                assume(a, expr.test, True)
                assume(b, expr.test, False)
                from .frontend import norm as _n
                yield from fork_value(a, conds + [_n(expr.test)[:40]], expr.body)
                yield from fork_value(b, conds + ["not " + _n(expr.test)[:40]], expr.orelse)
                return
        yield e, conds, evaluate(e, expr)

    def store(e: Env, target: ast.AST, value: Any) -> None:
        if isinstance(target, ast.Name):
            e.vars[target.id] = value
        elif isinstance(target, ast.Attribute):
            pth = attr_path(target)
            if pth:
                e.vars[pth] = value
        elif isinstance(target, ast.Tuple) and isinstance(value, Tup) and len(value.items) == len(target.elts):
            for t_, v_ in zip(target.elts, value.items):
                store(e, t_, v_)
        elif isinstance(target, ast.Tuple):
            for t_ in target.elts:
                store(e, t_, Opaque("unpacked"))

    def go(stmts: list[ast.stmt], e: Env, conds: list[str], gs: tuple = ()):
        if len(out) > max_paths:
            return
        if not stmts:
            out.append(Outcome(e, None, conds, "fallthrough", None, list(gs)))
            return
        st, rest = stmts[0], stmts[1:]
        from .frontend import norm as _n
        if isinstance(st, ast.Assign) and len(st.targets) == 1:
            for e2, c2, v in fork_value(e, conds, st.value):
                store(e2, st.targets[0], v)
                go(rest, e2, c2, gs)
        elif isinstance(st, ast.AnnAssign) and st.value is not None:
            for e2, c2, v in fork_value(e, conds, st.value):
                store(e2, st.target, v)
                go(rest, e2, c2, gs)
        elif isinstance(st, ast.AugAssign):
            cur = evaluate(e, st.target)
            v = evaluate(e, st.value)
            if isinstance(cur, Lin) and isinstance(v, Lin) and isinstance(st.op, (ast.Add, ast.Sub)):
                store(e, st.target, cur + v if isinstance(st.op, ast.Add) else cur - v)
            else:
                store(e, st.target, Opaque("augassign"))
            go(rest, e, conds, gs)
        elif isinstance(st, ast.Return):
            if st.value is None:
                out.append(Outcome(e, None, conds, "return", st, list(gs)))
            else:
                for e2, c2, v in fork_value(e, conds, st.value):
                    out.append(Outcome(e2, v, c2, "return", st, list(gs)))
        elif isinstance(st, ast.Raise):
            out.append(Outcome(e, None, conds, "raise", st, list(gs)))
        elif isinstance(st, ast.If):
            t = truth(e, st.test)
            if t.v is not False:
                a = e.copy()
                assume(a, st.test, True)
                go(list(st.body) + rest, a, conds + [_n(st.test)[:40]], gs + (((st.test, True, e),) if t.v is None else ()))
            if t.v is not True:
                b = e.copy()
                assume(b, st.test, False)
                go(list(st.orelse) + rest, b, conds + ["not " + _n(st.test)[:40]], gs + (((st.test, False, e),) if t.v is None else ()))
        elif isinstance(st, ast.Assert):
            assume(e, st.test, True)
            go(rest, e, conds, gs)
        elif isinstance(st, ast.Expr):
            if isinstance(st.value, ast.Call):
                evaluate(e, st.value)  # for call-model side effects (precondition obligations)
            go(rest, e, conds, gs)
        elif isinstance(st, (ast.Pass, ast.Import, ast.ImportFrom, ast.FunctionDef, ast.Global, ast.Nonlocal)):
            go(rest, e, conds, gs)
        elif isinstance(st, (ast.For, ast.AsyncFor)) and for_hook is not None and for_hook(e, st):
            go(rest, e, conds, gs)
        else:
            out.append(Outcome(e, None, conds, "unsupported", st, list(gs)))

    go(list(body), env, [])
    return out
