"""Self-test cases: one-construct mutants (expect a VIOLATION naming the rule) and benign twins
(expect silence).  `find` must occur exactly once in the *current* source, else the case is
recorded as not-applicable on this tree."""

REC = "geneticengine/evaluation/recorder.py"
TRK = "geneticengine/evaluation/tracker.py"
PRB = "geneticengine/problems/__init__.py"

CASES: list[dict] = []


def M(pid, cid, file, find, replace, rule, expect="violation", extra=()):
    CASES.append(dict(property=pid, id=f"{pid}/{cid}", file=file, find=find, replace=replace, rule=rule, expect=expect,
                      extra=list(extra), kind="mutant" if expect == "violation" else "twin"))


# ------------------------------------------------------------------------------------- C20
M("C20", "late-binding-comp", REC, "lambda t, i, p, comp=comp: i.get_fitness(p)", "lambda t, i, p: i.get_fitness(p)", "C20.R1")
M("C20", "late-binding-cb", "geml/simplegp.py", "lambda t, i, p, cb=cb: csv_extra_fields[cb]", "lambda t, i, p: csv_extra_fields[cb]", "C20.R1")
M("C20", "no-flush-after-row", REC, "            )\n            self.csv_file.flush()\n", "            )\n", "C20.R2")
M("C20", "flush-only-when-best", REC, "            )\n            self.csv_file.flush()\n",
  "            )\n            if is_best:\n                self.csv_file.flush()\n", "C20.R2")
M("C20", "gate-and", REC, "if not self.only_record_best_individuals or is_best:", "if self.only_record_best_individuals and is_best:", "C20.R4")
M("C20", "gate-always", REC, "if not self.only_record_best_individuals or is_best:", "if not self.only_record_best_individuals or not is_best:", "C20.R4")
M("C20", "field-after-header", REC, "        self.header_printed = False\n",
  "        self.fields[\"Generation\"] = lambda t, i, p: i.metadata.get(\"generation\")\n", "C20.R3")
M("C20", "component-index-const", REC, "fitness_components[comp]", "fitness_components[0]", "C20.R6")
M("C20", "register-only-best", TRK,
  "        for recorder in self.recorders:\n            recorder.register(tracker=self, individual=individual, problem=problem, is_best=is_best)",
  "        if is_best:\n            for recorder in self.recorders:\n                recorder.register(tracker=self, individual=individual, problem=problem, is_best=is_best)",
  "C20.R7")
M("C20", "extractor-other-individual", REC, "[self.fields[name](tracker, individual, problem) for name in self.fields]",
  "[self.fields[name](tracker, tracker.get_best_individual(), problem) for name in self.fields]", "C20.R6")
M("C20", "twin-rename-default", REC, "lambda t, i, p, comp=comp: i.get_fitness(p).fitness_components[comp]",
  "lambda t, i, p, k=comp: i.get_fitness(p).fitness_components[k]", "", expect="silent")
M("C20", "twin-header-list", REC, "self.csv_writer.writerow([name for name in self.fields])", "self.csv_writer.writerow(list(self.fields))", "", expect="silent")
M("C20", "twin-gate-reordered", REC, "if not self.only_record_best_individuals or is_best:", "if is_best or not self.only_record_best_individuals:", "", expect="silent")

# ------------------------------------------------------------------------------------- C12
M("C12", "is-better-nonstrict", PRB, "return a.maximizing_aggregate > b.maximizing_aggregate", "return a.maximizing_aggregate >= b.maximizing_aggregate", "C12.R2")
M("C12", "is-better-swapped-args", TRK,
  "problem.is_better(individual.get_fitness(problem), self.best_individual.get_fitness(problem))",
  "problem.is_better(self.best_individual.get_fitness(problem), individual.get_fitness(problem))", "C12.R1")
M("C12", "flag-true-in-else", TRK, "        else:\n            is_best = False\n", "        else:\n            is_best = True\n", "C12.R1")
M("C12", "best-not-stored-on-improvement", TRK,
  "self.best_individual.get_fitness(problem)):\n            self.best_individual = individual\n            is_best = True",
  "self.best_individual.get_fitness(problem)):\n            is_best = True", "C12.R1")
M("C12", "minimise-sign-flipped", PRB, "key = -v if minimize_value else v", "key = v if minimize_value else -v", "C12.R2")
M("C12", "minimise-ignored", PRB, "key = -v if minimize_value else v", "key = v", "C12.R2")
M("C12", "search-returns-last", "geneticengine/algorithms/random_search.py", "        return self.tracker.get_best_individual()", "        return ind", "C12.R3")
M("C12", "multi-front-always-replaced", TRK, "            if not_dominated:\n", "            if not_dominated or len(self.pareto_front) < 10:\n", "C12.R1")
M("C12", "multi-dominated-swapped", TRK,
  "self.problem.is_better(x.get_fitness(self.problem), current.get_fitness(self.problem))",
  "self.problem.is_better(current.get_fitness(self.problem), x.get_fitness(self.problem))", "C12.R1")
M("C12", "new-raw-evaluate-site", "geneticengine/algorithms/gp/operators/novelty.py",
  "        for _ in range(target_size):\n            yield Individual(",
  "        evaluator.evaluate(problem, population)\n        for _ in range(target_size):\n            yield Individual(", "C12.R4")
M("C12", "twin-is-better-mirrored", PRB, "return a.maximizing_aggregate > b.maximizing_aggregate", "return b.maximizing_aggregate < a.maximizing_aggregate", "", expect="silent")
M("C12", "twin-ifexp-negated", PRB, "key = -v if minimize_value else v", "key = v if not minimize_value else -v", "", expect="silent")

# ------------------------------------------------------------------------------------- C13
SEQ = "geneticengine/evaluation/sequential.py"
PAR = "geneticengine/evaluation/parallel.py"
EAPI = "geneticengine/evaluation/api.py"
M("C13", "seq-guard-dropped", SEQ, "if not individual.has_fitness(problem):", "if True:", "C13.R1")
M("C13", "seq-count-twice", SEQ, "                self.register_evaluation()\n", "                self.register_evaluation()\n                self.register_evaluation()\n", "C13.R1")
M("C13", "seq-count-cached-too", SEQ, "                self.register_evaluation()\n", "", "C13.R1",
  extra=[(SEQ, "            yield individual", "            self.register_evaluation()\n            yield individual")])
M("C13", "seq-store-not-counted", SEQ, "                self.register_evaluation()\n", "", "C13.R1")
M("C13", "par-guard-dropped", PAR, "for ind in indivs if not ind.has_fitness(problem)}", "for ind in indivs}", "C13.R1")
M("C13", "par-zip-misaligned", PAR, "for i, f in zip(pending, fitnesses):", "for i, f in zip(indivs, fitnesses):", "C13.R2")
M("C13", "par-unordered-map", PAR, "fitnesses = pool.map(mapper, pending)", "fitnesses = pool.uimap(mapper, pending)", "C13.R2")
M("C13", "eval-genotype-not-phenotype", EAPI, "phenotype = individual.get_phenotype()", "phenotype = individual.genotype", "C13.R3")
M("C13", "default-aggregate-sign", PRB, "sum(m and -fit or +fit for (fit, m) in zip(components, self.minimize))",
  "sum(m and +fit or -fit for (fit, m) in zip(components, self.minimize))", "C13.R3")
# the bool branch of the default aggregate is dead code (evaluate turns a bool 'minimize' into a list before the aggregate
# runs), so changing only that branch is an equivalent mutant: the interpreted model must stay silent ...
M("C13", "twin-dead-bool-branch-of-aggregate", PRB, "sum(-fit if self.minimize else fit for fit in components)",
  "sum(fit for fit in components)", "", expect="silent")
# ... and fire when the lazy initialisation that makes it dead is removed together with the sign
M("C13", "default-aggregate-bool-sign-live", PRB, "sum(-fit if self.minimize else fit for fit in components)",
  "sum(fit for fit in components)", "C13.R3",
  extra=[(PRB, "                self.minimize = [bool(self.minimize) for _ in multiple]\n", "                pass\n")])
M("C13", "uncounted-evaluate-in-elitism", "geneticengine/algorithms/gp/operators/elitism.py",
  "        candidates = list(population)\n", "        candidates = list(population)\n        for c in candidates:\n            c.set_fitness(problem, problem.evaluate(c.get_phenotype()))\n", "C13.R4")
M("C13", "ff-invoked-twice", PRB, 'single = self.ff["default_aggregate"](multiple)',
  'single = self.ff["default_aggregate"]([float(x) for x in self.ff["ff"](phenotype)])', "C13.R5")
M("C13", "counter-foreign-write", "geneticengine/evaluation/tracker.py",
  "        return self.evaluator.number_of_evaluations()", "        self.evaluator.count = len(self.recorders)\n        return self.evaluator.number_of_evaluations()", "C13.R4")
M("C13", "twin-early-continue", SEQ,
  "            if not individual.has_fitness(problem):\n                f = self.eval_single(problem, individual)\n                self.register_evaluation()\n                individual.set_fitness(problem, f)\n            yield individual",
  "            if individual.has_fitness(problem):\n                yield individual\n                continue\n            f = self.eval_single(problem, individual)\n            self.register_evaluation()\n            individual.set_fitness(problem, f)\n            yield individual",
  "", expect="silent")
M("C13", "twin-ifexp-aggregate", PRB, "sum(m and -fit or +fit for (fit, m) in zip(components, self.minimize))",
  "sum((-fit if m else fit) for (fit, m) in zip(components, self.minimize))", "", expect="silent")

# ------------------------------------------------------------------------------------- C14
BUD = "geneticengine/evaluation/budget.py"
M("C14", "budget-gt", BUD, "return tracker.get_number_evaluations() >= self.evaluations_budget", "return tracker.get_number_evaluations() > self.evaluations_budget", "C14.R3")
M("C14", "budget-eq", BUD, "return tracker.get_number_evaluations() >= self.evaluations_budget", "return tracker.get_number_evaluations() == self.evaluations_budget", "C14.R3")
M("C14", "anyof-and", BUD, "return self.a.is_done(tracker) or self.b.is_done(tracker)", "return self.a.is_done(tracker) and self.b.is_done(tracker)", "C14.R3")
M("C14", "anyof-same-member", BUD, "return self.a.is_done(tracker) or self.b.is_done(tracker)", "return self.a.is_done(tracker) or self.a.is_done(tracker)", "C14.R3")
M("C14", "target-none-true", BUD, "        if best is None:\n            return False", "        if best is None:\n            return True", "C14.R3")
M("C14", "loop-extra-condition", "geneticengine/algorithms/random_search.py", "while not self.is_done():", "while not self.is_done() and self.tracker.get_best_individual() is None:", "C14.R1")
M("C14", "loop-break", "geneticengine/algorithms/one_plus_one.py", "            self.tracker.evaluate([ind])\n", "            self.tracker.evaluate([ind])\n            if self.tracker.get_number_evaluations() > 1000:\n                break\n", "C14.R1")
M("C14", "hc-branch-without-evaluation", "geneticengine/algorithms/hill_climbing.py", "                self.tracker.evaluate(neighbourhood)\n", "                current_ind = max(neighbourhood, key=id)\n", "C14.R2")
M("C14", "twin-budget-mirrored", BUD, "return tracker.get_number_evaluations() >= self.evaluations_budget", "return self.evaluations_budget <= tracker.get_number_evaluations()", "", expect="silent")
M("C14", "twin-anyof-swapped", BUD, "return self.a.is_done(tracker) or self.b.is_done(tracker)", "return self.b.is_done(tracker) or self.a.is_done(tracker)", "", expect="silent")

# ------------------------------------------------------------------------------------- C17
SEL = "geneticengine/algorithms/gp/operators/selection.py"
M("C17", "tournament-min", SEL, "winner = max(candidates, key=Individual.key_function(problem))", "winner = min(candidates, key=Individual.key_function(problem))", "C17.R1")
M("C17", "tournament-raw-component-key", SEL, "winner = max(candidates, key=Individual.key_function(problem))",
  "winner = max(candidates, key=lambda i: i.get_fitness(problem).fitness_components[0])", "C17.R1")
M("C17", "tournament-yield-first", SEL, "            yield winner\n\n            if not self.with_replacement:", "            yield candidates[0]\n\n            if not self.with_replacement:", "C17.R1")
M("C17", "tournament-one-less", SEL, "for _ in range(self.tournament_size)]", "for _ in range(self.tournament_size - 1)]", "C17.R1")
M("C17", "key-function-negated", "geneticengine/solutions/individual.py", "return ind.get_fitness(problem)[0]", "return -ind.get_fitness(problem)[0]", "C17.R1")
M("C17", "lexicase-shuffle-hoisted", SEL,
  "        for _ in range(target_size):\n            cases = random.shuffle(list(range(n_cases)))\n",
  "        cases = random.shuffle(list(range(n_cases)))\n        for _ in range(target_size):\n", "C17.R2")
M("C17", "lexicase-best-direction", SEL, "choose_best = min if problem.minimize[c] else max", "choose_best = max if problem.minimize[c] else min", "C17.R3")
M("C17", "lexicase-compare-direction", SEL, "add_candidate = fitness.fitness_components[c] <= checking_value\n                    else:\n                        add_candidate = fitness.fitness_components[c] >= checking_value",
  "add_candidate = fitness.fitness_components[c] >= checking_value\n                    else:\n                        add_candidate = fitness.fitness_components[c] <= checking_value", "C17.R3")
M("C17", "lexicase-strict", SEL, "add_candidate = fitness.fitness_components[c] <= checking_value", "add_candidate = fitness.fitness_components[c] < checking_value", "C17.R3")
M("C17", "lexicase-epsilon-direction", SEL, "checking_value = best_fitness + mad if problem.minimize[c] else best_fitness - mad", "checking_value = best_fitness - mad if problem.minimize[c] else best_fitness + mad", "C17.R3")
M("C17", "lexicase-best-over-all", SEL, "fitness_components[c] for x in candidates_to_check])", "fitness_components[c] for x in candidates])", "C17.R3")
M("C17", "lexicase-no-remove", SEL, "            yield winner\n            candidates.remove(winner)\n", "            yield winner\n", "C17.R4")
M("C17", "twin-best-negated-test", SEL, "choose_best = min if problem.minimize[c] else max", "choose_best = max if not problem.minimize[c] else min", "", expect="silent")

# ------------------------------------------------------------------------------------- C15
COMB = "geneticengine/algorithms/gp/operators/combinators.py"
ELI = "geneticengine/algorithms/gp/operators/elitism.py"
XO = "geneticengine/algorithms/gp/operators/crossover.py"
MUT = "geneticengine/algorithms/gp/operators/mutation.py"
TOPS = "geneticengine/representations/tree/operators.py"
M("C15", "elitism-double-consume", ELI, "        new_population = sort_population(candidates, problem)", "        new_population = sort_population(list(population), problem)", "C15.R1")
M("C15", "parallel-pass-consumed", COMB, "                    iter(npopulation),\n                    end - start,", "                    population,\n                    end - start,", "C15.R1")
M("C15", "tournament-relist", "geneticengine/algorithms/gp/operators/selection.py", "candidates = list(pool)", "candidates = list(population)", "C15.R1")
M("C15", "crossover-off-by-one", XO, "for i in range(target_size // 2):", "for i in range((target_size + 1) // 2):", "C15.R2")
M("C15", "crossover-drop-odd", XO, "        if (target_size // 2) * 2 < target_size:\n            yield npopulation[0]\n", "", "C15.R2")
M("C15", "mutation-le", MUT, "if index < target_size:", "if index <= target_size:", "C15.R2")
M("C15", "elitism-slice-plus-one", ELI, "yield from new_population[:target_size]", "yield from new_population[: target_size + 1]", "C15.R2")
M("C15", "inject-off-by-one", TOPS, "target_size - injected)", "target_size - injected + 1)", "C15.R2")
M("C15", "pigrow-halves", TOPS, "yield from self.full.initialize(problem, representation, random, target_size - half)", "yield from self.full.initialize(problem, representation, random, half)", "C15.R2")
M("C15", "novelty-one-less", "geneticengine/algorithms/gp/operators/novelty.py", "for _ in range(target_size):", "for _ in range(target_size - 1):", "C15.R2")
M("C15", "ranges-unclamped", COMB, "indices = [0] + [min(v, target_size) for v in shares]", "indices = [0] + [v for v in shares]", "C15.R2p")
# with the clamp in place 'last < k' is the only way the last boundary can differ from k: patching it conditionally is an
# equivalent mutant (the list-shape domain refines 'last >= k' and 'all <= k' to 'last == k') ...
M("C15", "twin-ranges-last-conditional-clamped", COMB, "        indices[-1] = target_size\n", "        if indices[-1] < target_size:\n            indices[-1] = target_size\n", "", expect="silent")
# ... and a real defect without the clamp (the pinned tree's original form)
M("C15", "ranges-last-conditional-unclamped", COMB, "        indices[-1] = target_size\n", "        if indices[-1] < target_size:\n            indices[-1] = target_size\n", "C15.R2p",
  extra=[(COMB, "indices = [0] + [min(v, target_size) for v in shares]", "indices = [0] + [v for v in shares]")])
M("C15", "parallel-asks-end", COMB, "                    iter(npopulation),\n                    end - start,", "                    iter(npopulation),\n                    end,", "C15.R2p")
M("C15", "driver-wrong-size", "geneticengine/algorithms/gp/gp.py", "                    population,\n                    self.population_size,", "                    population,\n                    len(population.individuals),", "C15.R3")
M("C15", "twin-materialise-comprehension", ELI, "        candidates = list(population)", "        candidates = [ind for ind in population]", "", expect="silent")
M("C15", "twin-range-loop-identity", COMB, "        for _, p in zip(range(target_size), population):\n            yield p", "        for _, p in zip(range(target_size), population):\n            q = p\n            yield q", "", expect="silent")

# ------------------------------------------------------------------------------------- C16
HLP = "geneticengine/problems/helpers.py"
M("C16", "sort-ascending", HLP, "key=lambda x: x.get_fitness(problem).maximizing_aggregate, reverse=True)", "key=lambda x: x.get_fitness(problem).maximizing_aggregate, reverse=False)", "C16.R1")
M("C16", "sort-key-negated", HLP, "key=lambda x: x.get_fitness(problem).maximizing_aggregate, reverse=True)", "key=lambda x: -x.get_fitness(problem).maximizing_aggregate, reverse=True)", "C16.R1")
M("C16", "slice-suffix", ELI, "yield from new_population[:target_size]", "yield from new_population[-target_size:]", "C16.R1")
M("C16", "slice-short", ELI, "yield from new_population[:target_size]", "yield from new_population[: target_size - 1]", "C16.R1")
M("C16", "not-evaluated", ELI, "        evaluator.evaluate(problem, candidates)\n", "", "C16.R2")
M("C16", "default-step-exclusive", "geneticengine/algorithms/gp/gp.py", "    return ParallelStep(\n        [\n            ElitismStep(),",
  "    return ExclusiveParallelStep(\n        [\n            ElitismStep(),", "C16.R4",
  extra=[("geneticengine/algorithms/gp/gp.py", "from geneticengine.algorithms.gp.operators.combinators import ParallelStep, SequenceStep", "from geneticengine.algorithms.gp.operators.combinators import ExclusiveParallelStep, ParallelStep, SequenceStep")])
M("C16", "parallel-passes-slice", COMB, "                    iter(npopulation),\n                    end - start,", "                    iter(npopulation[start:]),\n                    end - start,", "C16.R4")
M("C16", "twin-negated-key-no-reverse", HLP, "key=lambda x: x.get_fitness(problem).maximizing_aggregate, reverse=True)", "key=lambda x: -x.get_fitness(problem).maximizing_aggregate)", "", expect="silent")
M("C16", "twin-sorted-inline", ELI, "new_population = sort_population(candidates, problem)", "new_population = sorted(candidates, key=lambda x: x.get_fitness(problem).maximizing_aggregate, reverse=True)", "", expect="silent")

# ------------------------------------------------------------------------------------- C18
SRC = "geneticengine/random/sources.py"
GE = "geneticengine/representations/grammatical_evolution/ge.py"
SGE = "geneticengine/representations/grammatical_evolution/structured_ge.py"
DSGE = "geneticengine/representations/grammatical_evolution/dynamic_structured_ge.py"
STK = "geneticengine/representations/stackgggp/__init__.py"
INI = "geneticengine/representations/tree/initializations.py"
M("C18", "weighted-choice-rewrites-weights", SRC, "        acc_weights: list[int] = [int(x * 100000) for x in accumulate(weights)]",
  "        for i in range(1, len(weights)):\n            weights[i] += weights[i - 1]\n        acc_weights: list[int] = [int(x * 100000) for x in weights]", "C18.R3")
M("C18", "twin-weighted-choice-local-running-totals", SRC, "        acc_weights: list[int] = [int(x * 100000) for x in accumulate(weights)]",
  "        totals = list(weights)\n        for i in range(1, len(totals)):\n            totals[i] += totals[i - 1]\n        acc_weights: list[int] = [int(x * 100000) for x in totals]", "", expect="silent")
M("C18", "ge-randint-width-off", GE, "return v % (max - min + 1) + min", "return v % (max - min + 2) + min", "C18.R1")
M("C18", "sge-randint-no-offset", SGE, "return v % (max - min + 1) + min", "return v % (max - min + 1)", "C18.R1")
M("C18", "stack-randint-exclusive", STK, "return v % (max - min + 1) + min", "return v % (max - min) + min", "C18.R1")
M("C18", "dsge-randint-zero-modulus", DSGE, "return v % (max_int - min_int + 1) + min_int", "return v % (max_int - min_int) + min_int", "C18.R1")
M("C18", "decider-wide-overflow", INI, "extra = pow(n, e) % (half + 1)", "extra = pow(n, e) % width", "C18.R1")
M("C18", "decider-narrow-swapped", INI, "            return self.random.randint(min_int, max_int)", "            return self.random.randint(min_int, max_int + 1)", "C18.R1")
M("C18", "native-float-scale", SRC, "return self.random.random() * (max - min) + min", "return self.random.random() * max + min", "C18.R2")
M("C18", "ge-float-zero-div", GE, "k = self.randint(1, sys.maxsize)", "k = self.randint(0, sys.maxsize)", "C18.R2")
M("C18", "choice-index-len", SRC, "i = self.randint(0, len(choices) - 1)", "i = self.randint(0, len(choices))", "C18.R3")
M("C18", "choice-weighted-inclusive", SRC, "self.randint(0, max(total - 1, 0))", "self.randint(0, total)", "C18.R3")
M("C18", "choice-weighted-loose-compare", SRC, "            if rand_value < acc:", "            if rand_value <= acc:", "C18.R3")
M("C18", "shuffle-overwrite", SRC, "            lst[i], lst[j] = lst[j], lst[i]", "            lst[i] = lst[j]", "C18.R3")
M("C18", "shuffle-index-range", SRC, "            j = self.randint(0, i)", "            j = self.randint(0, i + 1)", "C18.R3")
M("C18", "pop-random-returns-other", SRC, "        lst[i], item = item, lst[i]\n", "        lst[i] = item\n", "C18.R3")
M("C18", "pop-random-index", SRC, "        i = self.randint(0, total_len)\n", "        i = self.randint(0, total_len + 1)\n", "C18.R3")
M("C18", "native-global-rng", SRC, "        return self.random.randint(min, max)", "        return random.randint(min, max)", "C18.R4")
M("C18", "native-unseeded", SRC, "self.random = random.Random(seed)", "self.random = random.Random()", "C18.R4")
M("C18", "twin-ge-randint-reordered", GE, "return v % (max - min + 1) + min", "return min + v % (1 + max - min)", "", expect="silent")
M("C18", "twin-native-float", SRC, "return self.random.random() * (max - min) + min", "return min + (max - min) * self.random.random()", "", expect="silent")

# ------------------------------------------------------------------------------------- C02
MHI = "geneticengine/grammar/metahandlers/ints.py"
MHF = "geneticengine/grammar/metahandlers/floats.py"
MHL = "geneticengine/grammar/metahandlers/lists.py"
MHS = "geneticengine/grammar/metahandlers/strings.py"
TB = "geneticengine/representations/tree/treebased.py"
M("C02", "intrange-validate-strict", MHI, "    def validate(self, v) -> bool:\n        return self.min <= v <= self.max\n\n    def __class_getitem__(cls, args):\n        return IntRange(*args)",
  "    def validate(self, v) -> bool:\n        return self.min <= v < self.max\n\n    def __class_getitem__(cls, args):\n        return IntRange(*args)", "C02.R1")
M("C02", "intrange-generate-plus-one", MHI, "        return random.randint(self.min, self.max)", "        return random.randint(self.min, self.max + 1)", "C02.R1")
M("C02", "intervalrange-strict-again", MHI, "self.minimum_length <= length <= self.maximum_length and v[1] <= self.maximum_top_limit", "self.minimum_length < length <= self.maximum_length and v[1] <= self.maximum_top_limit", "C02.R1")
M("C02", "intervalrange-start-bound", MHI, "start_position = random.randint(0, self.maximum_top_limit - range_length)", "start_position = random.randint(0, self.maximum_top_limit)", "C02.R1")
M("C02", "floatrange-validate-strict", MHF, "    def validate(self, v) -> bool:\n        return self.min <= v <= self.max", "    def validate(self, v) -> bool:\n        return self.min < v <= self.max", "C02.R1")
M("C02", "listsize-generate-extra", MHL, "        assert len(li) == size\n        assert self.min <= len(li) <= self.max\n", "        li.append(rec(inner_type))\n", "C02.R1")
M("C02", "stringsize-validate-strict", MHS, "return self.min <= len(v) <= self.max and all(x in self.options for x in v)", "return self.min <= len(v) < self.max and all(x in self.options for x in v)", "C02.R1")
M("C02", "stringsize-guard-clause-strict", MHS, "return self.min <= len(v) <= self.max and all(x in self.options for x in v)",
  "if len(v) < self.min or len(v) >= self.max:\n            return False\n        return all(x in self.options for x in v)", "C02.R1")
M("C02", "twin-stringsize-guard-clause", MHS, "return self.min <= len(v) <= self.max and all(x in self.options for x in v)",
  "if len(v) < self.min or len(v) > self.max:\n            return False\n        return all(x in self.options for x in v)", "", expect="silent")
M("C02", "stringsize-other-alphabet", MHS, 's = "".join(random.choice(self.options) for _ in range(size))', 's = "".join(random.choice(string.printable) for _ in range(size))', "C02.R1")
M("C02", "varrange-choice-other", "geneticengine/grammar/metahandlers/vars.py", "        return random.choice(self.options)", "        return random.choice(sorted(dependent_values))", "C02.R1")
M("C02", "create-node-skips-generate", INI, "        v = metahandler.generate(global_context.random, global_context.grammar, base_type, recurse, dependent_vals)", "        v = recurse(base_type)", "C02.R2")
M("C02", "sibling-dict-aliased", INI, "            dependent_values = {}\n            nctx = LocalSynthesisContext(context.depth + 1", "            dependent_values = dependent_vals\n            nctx = LocalSynthesisContext(context.depth + 1", "C02.R3")
M("C02", "sibling-not-recorded", INI, "                dependent_values[argn] = arg\n", "", "C02.R3")
M("C02", "generate-without-siblings", INI, "base_type, recurse, dependent_vals)", "base_type, recurse, {})", "C02.R3")
M("C02", "mutate-no-sibling-dict", TB, "narg = mutate(global_context, arg, part, dependent_values=dependent_values)", "narg = mutate(global_context, arg, part)", "C02.R3")
M("C02", "mutate-ignores-dependencies", TB, "                for m in mutated:\n                    if m in dependencies:\n                        should_mutate = True\n", "                pass\n", "C02.R4")
M("C02", "twin-intrange-mirrored", MHI, "    def validate(self, v) -> bool:\n        return self.min <= v <= self.max\n\n    def __class_getitem__(cls, args):\n        return IntRange(*args)",
  "    def validate(self, v) -> bool:\n        return v >= self.min and self.max >= v\n\n    def __class_getitem__(cls, args):\n        return IntRange(*args)", "", expect="silent")
M("C02", "twin-intervalrange-renamed", MHI, "        length = v[1] - v[0]\n        return self.minimum_length <= length", "        span = v[1] - v[0]\n        length = span\n        return self.minimum_length <= length", "", expect="silent")

# ------------------------------------------------------------------------------------- C10
GRM = "geneticengine/grammar/grammar.py"
M("C10", "create-node-alias-remove", INI, "compatible_productions = list(global_context.grammar.alternatives[starting_symbol])", "compatible_productions = global_context.grammar.alternatives[starting_symbol]", "C10.R1")
M("C10", "create-node-conditional-copy", INI, "compatible_productions = list(global_context.grammar.alternatives[starting_symbol])",
  "prods = global_context.grammar.alternatives[starting_symbol]\n            compatible_productions = list(prods) if len(prods) > 1 else prods", "C10.R1")
M("C10", "decider-filters-in-place", INI,
  "        alternatives = [\n            x for x in alternatives if self.grammar.get_distance_to_terminal(x) <= (self.max_depth - ctx.depth)\n        ]\n        return self.random.choice(alternatives)\n\n    def validate",
  "        for x in list(self.grammar.alternatives.get(ty, [])):\n            if self.grammar.get_distance_to_terminal(x) > (self.max_depth - ctx.depth):\n                self.grammar.alternatives[ty].remove(x)\n        return self.random.choice(self.grammar.alternatives.get(ty, alternatives))\n\n    def validate", "C10.R1")
M("C10", "stack-pops-production", STK, "                alt = r.choice(compatible_productions)", "                alt = compatible_productions.pop()", "C10.R1")
M("C10", "shuffle-grammar-list", STK, "                concrete = r.choice(g.alternatives[target_type])", "                concrete = r.shuffle(g.alternatives[target_type])[0]", "C10.R1")
M("C10", "weights-rewritten-in-decider", INI, "        weights = [w(alt) * self.grammar.get_weights()[alt] for alt in alternatives]",
  "        self.grammar.update_weights(0.0, self.grammar.get_weights())\n        weights = [w(alt) * self.grammar.get_weights()[alt] for alt in alternatives]", "C10.R2")
M("C10", "alternatives-defaultdict", GRM, "        self.alternatives: dict[type, list[type]] = {}", "        self.alternatives: dict[type, list[type]] = defaultdict(list)", "C10.R3")
MHV = "geneticengine/grammar/metahandlers/vars.py"
M("C10", "varrange-pops-option", MHV, "        return random.choice(self.options)\n\n    def __repr__", "        return random.pop_random(self.options)\n\n    def __repr__", "C10.R4")
M("C10", "intlist-shuffles-own-elements", MHI, "        return random.choice(self.elements)\n\n    def validate(self, v) -> bool:\n        return v in self.elements\n\n    def __class_getitem__(cls, args):\n        return IntList(*args)",
  "        return random.shuffle(self.elements)[0]\n\n    def validate(self, v) -> bool:\n        return v in self.elements\n\n    def __class_getitem__(cls, args):\n        return IntList(*args)", "C10.R4")
M("C10", "weighted-choice-accumulates-in-place", SRC, "        acc_weights: list[int] = [int(x * 100000) for x in accumulate(weights)]",
  "        for i in range(1, len(weights)):\n            weights[i] += weights[i - 1]\n        acc_weights: list[int] = [int(x * 100000) for x in weights]", "C10.R4")
M("C10", "twin-varrange-choice-of-copy", MHV, "        return random.choice(self.options)\n\n    def __repr__", "        return random.pop_random(list(self.options))\n\n    def __repr__", "", expect="silent")
M("C10", "twin-copy-by-slice", INI, "compatible_productions = list(global_context.grammar.alternatives[starting_symbol])", "compatible_productions = global_context.grammar.alternatives[starting_symbol][:]", "", expect="silent")
M("C10", "twin-copy-comprehension", INI, "compatible_productions = list(global_context.grammar.alternatives[starting_symbol])", "compatible_productions = [p for p in global_context.grammar.alternatives[starting_symbol]]", "", expect="silent")

# ------------------------------------------------------------------------------------- C09
M("C09", "ge-mutate-in-place", GE, "        clone = [i for i in genotype.dna]\n", "        clone = genotype.dna\n", "C09.R1")
M("C09", "sge-mutate-shallow", SGE, "        dna = deepcopy(genotype.dna)\n        dna[rkey][rindex]", "        dna = dict(genotype.dna)\n        dna[rkey][rindex]", "C09.R1")
M("C09", "dsge-crossover-shares-lists", DSGE, "                c1[k] = deepcopy(parent1.dna.get(k, []))\n                c2[k] = deepcopy(parent2.dna.get(k, []))\n            else:",
  "                c1[k] = parent1.dna.get(k, [])\n                c2[k] = parent2.dna.get(k, [])\n            else:", "C09.R3")
M("C09", "dsge-mutate-copy-on-write", DSGE, "        dna = deepcopy(genotype.dna)\n", "        dna = dict(genotype.dna)\n", "C09.R3")
M("C09", "stack-crossover-extend", STK, "        c1 = parent1.dna[:rindex] + parent2.dna[rindex:]\n", "        c1 = parent1.dna\n        c1[rindex:] = parent2.dna[rindex:]\n", "C09.R1")
M("C09", "lexicase-removes-from-input", SEL, "        candidates = list(population)\n        evaluator.evaluate(problem, candidates)\n        n_cases", "        candidates = population\n        evaluator.evaluate(problem, candidates)\n        n_cases", "C09.R1")
M("C09", "mutation-step-writes-genotype", MUT, "                    nind = self.wrap(representation, mutated)\n                    yield nind", "                    ind.genotype = mutated\n                    yield ind", "C09.R1")
M("C09", "elitism-sorts-in-place", ELI, "        candidates = list(population)\n", "        candidates = population\n        candidates.sort(key=lambda x: 0)\n", "C09.R1")
M("C09", "relabel-before-guard", "geneticengine/representations/tree/utils.py", "    non_terminals = g.non_terminals\n    children: list[Any]\n", "    non_terminals = g.non_terminals\n    children: list[Any]\n    i.gengy_nodes = 0\n", "C09.R2")
M("C09", "find-in-tree-unguarded", TB, '    if hasattr(o, "gengy_types_this_way") and ty in o.gengy_types_this_way:\n        vals = o.gengy_types_this_way[ty]\n        return vals',
  '    if hasattr(o, "gengy_types_this_way"):\n        vals = o.gengy_types_this_way[ty]\n        return vals', "C09.R4")
M("C09", "listsize-mutate-in-place", MHL, "current_node_cpy: list = copy.copy(list(current_node.gengy_init_values))", "current_node_cpy: list = current_node.gengy_init_values", "C09.R1")
M("C09", "twin-ge-clone-list", GE, "        clone = [i for i in genotype.dna]\n", "        clone = list(genotype.dna)\n", "", expect="silent")
M("C09", "twin-sge-copy-per-key", SGE, "        dna = deepcopy(genotype.dna)\n        dna[rkey][rindex]", "        dna = {k: list(v) for k, v in genotype.dna.items()}\n        dna[rkey][rindex]", "", expect="silent")

# ------------------------------------------------------------------------------------- C07
M("C07", "ge-metahandlers-from-decider-stream", GE, "        rand: RandomSource = ListWrapper(genotype.dna)\n", "        rand: RandomSource = self.decider.random\n", "C07.R1")
M("C07", "stack-new-native-source", STK, "return create_tree_using_stacks(self.grammar, ListWrapper(genotype.dna), failures_limit=self.failures_limit)",
  "return create_tree_using_stacks(self.grammar, NativeRandomSource(len(genotype.dna)), failures_limit=self.failures_limit)", "C07.R1",
  extra=[(STK, "from geneticengine.random.sources import RandomSource\n", "from geneticengine.random.sources import NativeRandomSource, RandomSource\n")])
M("C07", "dsge-float-from-shared-stream", DSGE, "        v = self.read(float)\n        return v % (max_float - min_float) + min_float", "        return self.genotype.random.random_float(min_float, max_float)", "C07.R1")
M("C07", "list-size-from-context-random", INI, "        length = decider.random_int(0, 10)\n", "        length = global_context.random.randint(0, 10)\n", "C07.R1")
M("C07", "ge-mapping-caches-on-representation", GE, "        rand: RandomSource = ListWrapper(genotype.dna)\n", "        rand: RandomSource = ListWrapper(genotype.dna)\n        self.gene_length = len(genotype.dna)\n", "C07.R2")
M("C07", "sge-mapping-writes-genotype", SGE, "        rand: RandomSource = StructuredListWrapper(genotype.dna)\n", "        rand: RandomSource = StructuredListWrapper(genotype.dna)\n        genotype.dna[INFRASTRUCTURE_KEY] = list(genotype.dna[INFRASTRUCTURE_KEY])\n", "C07.R2")
M("C07", "twin-rename-source", GE, "        rand: RandomSource = ListWrapper(genotype.dna)\n        return random_node(rand,", "        source: RandomSource = ListWrapper(genotype.dna)\n        return random_node(source,", "", expect="silent")
M("C07", "twin-stack-local-wrapper", STK, "return create_tree_using_stacks(self.grammar, ListWrapper(genotype.dna), failures_limit=self.failures_limit)",
  "wrapper = ListWrapper(genotype.dna)\n        return create_tree_using_stacks(self.grammar, wrapper, failures_limit=self.failures_limit)", "", expect="silent")

M("C07", "dsge-get-returns-drawn-not-stored", DSGE, "            nvalue = self.random.randint(0, MAX_GENE_VALUE)\n            self.dna[ty].append(nvalue)\n        return self.dna[ty][n]",
  "            nvalue = self.random.randint(0, MAX_GENE_VALUE)\n            if len(self.dna[ty]) < n:\n                self.dna[ty].append(nvalue)\n            else:\n                return nvalue\n        return self.dna[ty][n]", "C07.R3")
M("C07", "dsge-get-extends-a-copy", DSGE, "        while len(self.dna[ty]) <= n:\n            nvalue = self.random.randint(0, MAX_GENE_VALUE)\n            self.dna[ty].append(nvalue)\n        return self.dna[ty][n]",
  "        codons = list(self.dna[ty])\n        while len(codons) <= n:\n            codons.append(self.random.randint(0, MAX_GENE_VALUE))\n        return codons[n]", "C07.R3")
M("C07", "dsge-get-overwrites-position", DSGE, "        return self.dna[ty][n]\n\n\nclass DynamicSGEDecider", "        self.dna[ty][0] = self.dna[ty][n]\n        return self.dna[ty][n]\n\n\nclass DynamicSGEDecider", "C07.R3")
M("C07", "dsge-decider-inherits-stream-float", DSGE, "        self.genotype = genotype\n        self.grammar = grammar\n",
  "        self.genotype = genotype\n        self.random = genotype.random\n        self.grammar = grammar\n", "C07.R1",
  extra=[(DSGE, "        v = self.read(float)\n        return v % (max_float - min_float) + min_float", "        return self.random.random_float(min_float, max_float)")])
M("C07", "twin-dsge-get-local-list", DSGE, "        while len(self.dna[ty]) <= n:\n            nvalue = self.random.randint(0, MAX_GENE_VALUE)\n            self.dna[ty].append(nvalue)\n        return self.dna[ty][n]",
  "        codons = self.dna[ty]\n        while len(codons) <= n:\n            codons.append(self.random.randint(0, MAX_GENE_VALUE))\n        return codons[n]", "", expect="silent")
M("C07", "twin-dsge-get-setdefault", DSGE, "        if ty not in self.dna:\n            self.dna[ty] = []\n        while len(self.dna[ty]) <= n:\n            nvalue = self.random.randint(0, MAX_GENE_VALUE)\n            self.dna[ty].append(nvalue)\n        return self.dna[ty][n]",
  "        codons = self.dna.setdefault(ty, [])\n        missing = n + 1 - len(codons)\n        for _ in range(max(0, missing)):\n            codons.append(self.random.randint(0, MAX_GENE_VALUE))\n        return codons[n]", "", expect="silent")

# ------------------------------------------------------------------------------------- C08
M("C08", "dsge-crossover-key-union", DSGE, "        keys = parent1.dna.keys()\n\n        mask", "        keys = parent1.dna.keys() | parent2.dna.keys()\n\n        mask", "C08.R1")
M("C08", "grammar-first-terminal", GRM, "    def get_min_tree_depth(self):", "    def any_terminal(self):\n        return next(iter(self.terminals))\n\n    def get_min_tree_depth(self):", "C08.R1")
M("C08", "decider-global-random", INI, "        return self.random.choice(alternatives)\n\n\nclass MaxDepthDecider", "        import random as _r\n        return _r.choice(alternatives)\n\n\nclass MaxDepthDecider", "C08.R3")
M("C08", "mutation-seeded-by-time", MUT, "                v = random.random_float(0, 1)\n", "                import time\n                v = (time.time() % 1.0)\n", "C08.R3")
M("C08", "id-as-tiebreak", HLP, "key=lambda x: x.get_fitness(problem).maximizing_aggregate, reverse=True)", "key=lambda x: (x.get_fitness(problem).maximizing_aggregate, id(x)), reverse=True)", "C08.R3")
M("C08", "tracker-shared-default-evaluator", TRK, "        evaluator: Evaluator = None,\n        recorders: list[SearchRecorder] = None,\n    ):\n        super().__init__(problem, evaluator, recorders=recorders)\n\n        self.best_individual = None",
  "        evaluator: Evaluator = SequentialEvaluator(),\n        recorders: list[SearchRecorder] = None,\n    ):\n        super().__init__(problem, evaluator, recorders=recorders)\n\n        self.best_individual = None", "C08.R4")
M("C08", "module-level-cache", "geneticengine/grammar/utils.py", "def is_abstract(t: type) -> bool:\n    \"\"\"Returns whether a class is a Protocol or AbstractBaseClass.\"\"\"\n",
  "_ABS: dict = {}\n\n\ndef is_abstract(t: type) -> bool:\n    \"\"\"Returns whether a class is a Protocol or AbstractBaseClass.\"\"\"\n    if t in _ABS:\n        return _ABS[t]\n    _ABS[t] = False\n", "C08.R4")
M("C08", "native-global-rng", SRC, "        return self.random.randint(min, max)", "        return random.randint(min, max)", "C08.R2")
M("C08", "twin-sorted-set-iteration", GRM, "        return max(list(map(dist, self.all_nodes)))", "        return max(dist(x) for x in self.all_nodes)", "", expect="silent")
M("C08", "twin-mentioned-symbols-set-call", GRM, "return {x for t in self.get_all_symbols()[2] for x in self.collect_types(t)}", "return set(x for t in self.get_all_symbols()[2] for x in self.collect_types(t))", "", expect="silent")

# ------------------------------------------------------------------------------------- C11
TU = "geneticengine/representations/tree/utils.py"
M("C11", "terminal-node-stored-count-differs", TU, "            i.gengy_nodes = int(g.expansion_depthing)\n", "            i.gengy_nodes = 1\n", "C11.R7")
M("C11", "twin-terminal-unit-local", TU, "        if not is_builtin(type(i)):\n            i.gengy_labeled = True\n            i.gengy_distance_to_term = int(g.expansion_depthing)\n",
  "        unit = int(g.expansion_depthing)\n        if not is_builtin(type(i)):\n            i.gengy_labeled = True\n            i.gengy_distance_to_term = unit\n", "", expect="silent")
M("C11", "create-node-returns-unwrapped", INI, "            v = apply_constructor(starting_symbol, args)\n            return wrap_result(v, global_context, context)", "            v = apply_constructor(starting_symbol, args)\n            return v", "C11.R1")
M("C11", "tree-mutate-skips-relabel", TB, "    relabeled_new_tree = relabel_nodes_of_trees(new_tree, g)\n    return relabeled_new_tree", "    return new_tree", "C11.R1",
  extra=[(TB, "        return wrap_result(v, global_context, i.gengy_synthesis_context)\n", "        return v\n")])
M("C11", "recursive-call-drops-list-flag", TU, "            nodes, dist, thisway, weighted_nodes = relabel_nodes(\n                c,\n                g,\n                isinstance(c, list),\n            )",
  "            nodes, dist, thisway, weighted_nodes = relabel_nodes(c, g)", "C11.R3")
M("C11", "index-adopts-child-list", TU, "            for k, v in thisway.items():\n                types_this_way[k].extend(v)",
  "            for k, v in thisway.items():\n                if k in types_this_way:\n                    types_this_way[k].extend(v)\n                else:\n                    types_this_way[k] = v", "C11.R4")
M("C11", "donor-index-edited", TB, "            if not options:\n                return create_node(global_context, ty, i.gengy_synthesis_context, dependent_values)",
  "            if options and source_material[0] in options:\n                options.remove(source_material[0])\n            if not options:\n                return create_node(global_context, ty, i.gengy_synthesis_context, dependent_values)", "C11.R4")
M("C11", "new-typechecking-only-use", "geneticengine/grammar/utils.py", "def is_builtin_class_instance(obj):\n    return obj.__class__.__module__ == \"builtins\"", "def is_builtin_class_instance(obj):\n    return obj.__class__.__module__ == \"builtins\" and not isinstance(obj, GengyList)", "C11.R2")
M("C11", "fold-nodes-not-counted", TU, "            number_of_nodes += abs_adjust + nodes\n", "            number_of_nodes += abs_adjust\n", "C11.R5")
M("C11", "fold-depth-sum-instead-of-max", TU, "            distance_to_term = max(distance_to_term, dist + abs_adjust + list_adjust)", "            distance_to_term = distance_to_term + dist + abs_adjust + list_adjust", "C11.R5")
M("C11", "fold-depth-no-edge", TU, "            list_adjust = 0 if isinstance(c, list) else 1\n", "            list_adjust = 0\n", "C11.R5")
M("C11", "fold-weighted-omits-own-depth", TU, "    if not is_list:\n        weighted_number_of_nodes += distance_to_term\n", "", "C11.R5")
M("C11", "fold-stores-other-than-returned", TU, "    i.gengy_nodes = number_of_nodes\n", "    i.gengy_nodes = number_of_nodes + 1\n", "C11.R5")
M("C11", "twin-fold-sum-comprehension", TU, "            weighted_number_of_nodes += weighted_nodes\n", "            weighted_number_of_nodes = weighted_number_of_nodes + weighted_nodes\n", "", expect="silent")
M("C11", "twin-relabel-kw-flag", TU, "                c,\n                g,\n                isinstance(c, list),\n            )", "                c,\n                g,\n                is_list=isinstance(c, list),\n            )", "", expect="silent")
M("C11", "twin-index-extend-copy", TU, "                types_this_way[k].extend(v)", "                types_this_way[k].extend(list(v))", "", expect="silent")

M("C05", "update-weights-drops-depth-mode", GRM, "        self.__init__(starting_symbol, nodes, self.expansion_depthing)\n", "        self.__init__(starting_symbol, nodes)\n", "C05.R4")
M("C05", "update-weights-drops-subtypes", GRM, "        self.__init__(starting_symbol, nodes, self.expansion_depthing)\n", "        self.__init__(starting_symbol, expansion_depthing=self.expansion_depthing)\n", "C05.R4")
M("C05", "twin-update-weights-keyword-reinit", GRM, "        self.__init__(starting_symbol, nodes, self.expansion_depthing)\n",
  "        mode = self.expansion_depthing\n        self.__init__(starting_symbol, considered_subtypes=nodes, expansion_depthing=mode)\n", "", expect="silent")
M("C05", "usable-grammar-dataclass-before-alternatives", GRM, "            if c in self.alternatives:\n                for k in self.alternatives[c]:\n                    add(k)\n            elif is_dataclass(c):",
  "            if is_dataclass(c) and c not in [bool, int, str, float, list, tuple]:\n                for _, k in get_arguments(c):\n                    add(strip_annotations(k))\n            elif c in self.alternatives:\n                for k in self.alternatives[c]:\n                    add(k)\n            elif is_dataclass(c):", "C05.R1")
M("C05", "update-weights-indexes-every-supplied-class", GRM, "            if node in weights:  # a supplied class the starting symbol does not reach has no normalised weight\n                # through the accessor: usable_grammar also supplies the built-in field types, which carry no metadata\n                get_gengy(node)[\"weight\"] = weights[node]\n",
  "            get_gengy(node)[\"weight\"] = weights[node]\n", "C05.R5")
M("C05", "update-weights-namespace-lookup", GRM, "            if node in weights:  # a supplied class the starting symbol does not reach has no normalised weight\n                # through the accessor: usable_grammar also supplies the built-in field types, which carry no metadata\n                get_gengy(node)[\"weight\"] = weights[node]\n",
  "            if node in weights:\n                node.__dict__[\"__gengy__\"][\"weight\"] = weights[node]\n", "C05.R5")
M("C05", "twin-update-weights-get", GRM, "            if node in weights:  # a supplied class the starting symbol does not reach has no normalised weight\n                # through the accessor: usable_grammar also supplies the built-in field types, which carry no metadata\n                get_gengy(node)[\"weight\"] = weights[node]\n",
  "            w = weights.get(node)\n            if w is not None:\n                get_gengy(node)[\"weight\"] = w\n", "", expect="silent")
M("C05", "reachability-through-strip-annotations", GRM, "            for prod in explode_generics(dsts):", "            for prod in map(strip_annotations, dsts):", "C05.R1")

# ------------------------------------------------------------------------------------- C06
M("C06", "ge-crossover-wrong-halves", GE, "        c2 = parent2.dna[:rindex] + parent1.dna[rindex:]", "        c2 = parent1.dna[rindex:] + parent2.dna[:rindex]", "C06.R1")
M("C06", "stack-crossover-different-cut", STK, "        c2 = parent2.dna[:rindex] + parent1.dna[rindex:]", "        c2 = parent2.dna[: rindex + 1] + parent1.dna[rindex:]", "C06.R1")
M("C06", "ge-crossover-same-parent", GE, "        c2 = parent2.dna[:rindex] + parent1.dna[rindex:]", "        c2 = parent1.dna[:rindex] + parent2.dna[rindex:]", "C06.R1")
M("C06", "sge-crossover-other-key", SGE, "                c1[k] = deepcopy(parent1.dna[k])\n                c2[k] = deepcopy(parent2.dna[k])", "                c1[k] = deepcopy(parent1.dna[INFRASTRUCTURE_KEY])\n                c2[k] = deepcopy(parent2.dna[k])", "C06.R2")
M("C06", "sge-crossover-mask-ignored", SGE, "            else:\n                c1[k] = deepcopy(parent2.dna[k])\n                c2[k] = deepcopy(parent1.dna[k])", "            else:\n                c1[k] = deepcopy(parent1.dna[k])\n                c2[k] = deepcopy(parent2.dna[k])", "C06.R2")
M("C06", "dsge-crossover-both-from-p1", DSGE, "                c1[k] = deepcopy(parent1.dna.get(k, []))\n                c2[k] = deepcopy(parent2.dna.get(k, []))", "                c1[k] = deepcopy(parent1.dna.get(k, []))\n                c2[k] = deepcopy(parent1.dna.get(k, []))", "C06.R2")
M("C06", "ge-mutate-two-genes", GE, "        clone[rindex] = random.randint(0, sys.maxsize)\n", "        clone[rindex] = random.randint(0, sys.maxsize)\n        clone[rindex - 1] = random.randint(0, sys.maxsize)\n", "C06.R3")
M("C06", "stack-mutate-appends", STK, "        clone[rindex] = random.randint(0, 10000)\n", "        clone[rindex] = random.randint(0, 10000)\n        clone.append(random.randint(0, 10000))\n", "C06.R3")
M("C06", "sge-mutate-index-range", SGE, "rindex = random.randint(0, len(genotype.dna[rkey]) - 1)", "rindex = random.randint(0, len(genotype.dna[rkey]))", "C06.R3")
M("C06", "dsge-mutate-grows", DSGE, "            if genotype.dna[rkey]:\n                rindex = random.randint(0, len(genotype.dna[rkey]) - 1)\n                dna[rkey][rindex] = random.randint(0, sys.maxsize)",
  "            rindex = random.randint(0, max(len(genotype.dna[rkey]) - 1, 0))\n            if not dna[rkey]:\n                dna[rkey].append(0)\n            dna[rkey][rindex] = random.randint(0, sys.maxsize)", "C06.R3")
M("C06", "new-constant-guard", TB, '    if node_to_mutate == 0 or not hasattr(i, "gengy_synthesis_context"):', '    if node_to_mutate == 0 or not hasattr(i, "gengy_synth_context"):', "C06.R4")
M("C06", "twin-ge-crossover-names", GE, "        c1 = parent1.dna[:rindex] + parent2.dna[rindex:]\n        c2 = parent2.dna[:rindex] + parent1.dna[rindex:]\n        return (Genotype(c1), Genotype(c2))",
  "        first = parent1.dna[:rindex] + parent2.dna[rindex:]\n        second = parent2.dna[:rindex] + parent1.dna[rindex:]\n        return (Genotype(first), Genotype(second))", "", expect="silent")

# ------------------------------------------------------------------------------------- C01
M("C01", "tuple-generator-again", INI, "        vals = tuple(create_node(global_context, t, context, {}) for t in types)", "        vals = (create_node(global_context, t, context, {}) for t in types)", "C01.R2")
M("C01", "list-of-map", INI, "        vl: GengyList = GengyList(starting_symbol, nli)", "        vl: GengyList = GengyList(starting_symbol, map(lambda z: z, nli))", "C01.R2")
M("C01", "create-node-drops-union", INI, "    elif is_union(starting_symbol):", "    elif is_union(starting_symbol) and False:", "C01.R1")
M("C01", "create-node-tuple-bare", INI, "    elif is_generic_tuple(starting_symbol):", "    elif starting_symbol is tuple:", "C01.R1")
M("C01", "dsge-bool-raw-gene", DSGE, "        return self.read(bool) % 2 == 0", "        return self.read(bool)", "C01.R3")
M("C01", "base-random-int-float", INI, "            return self.random.randint(min_int, max_int)", "            return self.random.randint(min_int, max_int) / 1", "C01.R3")
M("C01", "stack-bool-as-int", STK, "add_to_stacks(stacks, bool, r.random_bool())", "add_to_stacks(stacks, bool, r.randint(0, 1))", "C01.R3")
M("C01", "chooser-returns-requested-type", INI, "        assert len(alternatives) > 0, \"No alternatives presented\"\n        alternatives = [\n            x for x in alternatives if self.grammar.get_distance_to_terminal(x) <= (self.max_depth - ctx.depth)\n        ]\n        return self.random.choice(alternatives)",
  "        assert len(alternatives) > 0, \"No alternatives presented\"\n        alternatives = [\n            x for x in alternatives if self.grammar.get_distance_to_terminal(x) <= (self.max_depth - ctx.depth)\n        ]\n        return self.random.choice(alternatives) if alternatives else ty", "C01.R4")
M("C01", "chooser-from-all-nodes", DSGE, "        return alternatives[v % len(alternatives)]\n\n    def choose_options", "        pool = sorted(self.grammar.all_nodes, key=str)\n        return pool[v % len(pool)]\n\n    def choose_options", "C01.R4")
M("C01", "field-skipped", INI, "                dependent_values[argn] = arg\n                args.append(arg)\n", "                dependent_values[argn] = arg\n                if arg is not None:\n                    args.append(arg)\n", "C01.R5")
M("C01", "constructor-other-type", TB, "            v = apply_constructor(type(i), nargs)", "            v = apply_constructor(ty, nargs)", "C01.R5")
M("C01", "raise-value-error", INI, "            raise GeneticEngineError(\n                f\"Symbol {starting_symbol} not in grammar rules.\",\n            )", "            raise ValueError(\n                f\"Symbol {starting_symbol} not in grammar rules.\",\n            )", "C01.R6")
M("C01", "stack-uncaught-keyerror", STK, "                    else:\n                        raise IndexError()\n", "                    else:\n                        raise KeyError(argt)\n", "C01.R6")
M("C01", "twin-tuple-list", INI, "        vals = tuple(create_node(global_context, t, context, {}) for t in types)", "        vals = tuple([create_node(global_context, t, context, {}) for t in types])", "", expect="silent")
M("C01", "twin-chooser-renamed", INI, "        assert len(alternatives) > 0, \"No alternatives presented\"\n        alternatives = [\n            x for x in alternatives if self.grammar.get_distance_to_terminal(x) <= (self.max_depth - ctx.depth)\n        ]\n        return self.random.choice(alternatives)",
  "        assert len(alternatives) > 0, \"No alternatives presented\"\n        fitting = [\n            x for x in alternatives if self.grammar.get_distance_to_terminal(x) <= (self.max_depth - ctx.depth)\n        ]\n        return self.random.choice(fitting)", "", expect="silent")

# ------------------------------------------------------------------------------------- C03
M("C03", "maxdepth-filter-strict", INI, "        alternatives = [\n            x for x in alternatives if self.grammar.get_distance_to_terminal(x) <= (self.max_depth - ctx.depth)\n        ]\n        return self.random.choice(alternatives)\n\n    def validate",
  "        alternatives = [\n            x for x in alternatives if self.grammar.get_distance_to_terminal(x) < (self.max_depth - ctx.depth)\n        ]\n        return self.random.choice(alternatives)\n\n    def validate", "C03.R2")
M("C03", "dsge-filter-lax", DSGE, "x for x in alternatives if self.grammar.get_distance_to_terminal(x) <= (self.max_depth - ctx.depth)", "x for x in alternatives if self.grammar.get_distance_to_terminal(x) <= (self.max_depth - ctx.depth + 1)", "C03.R2")
M("C03", "pigrow-baseline-strict", INI, "baseline = [x for x in alternatives if self.grammar.get_distance_to_terminal(x) <= (self.max_depth - ctx.depth)]", "baseline = [x for x in alternatives if self.grammar.get_distance_to_terminal(x) < (self.max_depth - ctx.depth)]", "C03.R2")
M("C03", "validate-le", INI, "        if self.max_depth < self.grammar.get_min_tree_depth():\n            if self.grammar.get_min_tree_depth() == 1000000:\n                raise GeneticEngineError(\n                    f\"\"\"Grammar's minimal tree depth is {self.grammar.get_min_tree_depth()}, which is the default tree depth.\n                    It's highly like that there are nodes of your grammar than cannot reach any terminal.\"\"\",\n                )\n            raise GeneticEngineError(\n                f\"\"\"Cannot use complete grammar for individual creation. Max depth ({self.max_depth})\n                is smaller than grammar's minimal tree depth ({self.grammar.get_min_tree_depth()}).\"\"\",\n            )\n\n\nclass FullDecider",
  "        if self.max_depth <= self.grammar.get_min_tree_depth():\n            raise GeneticEngineError(\"infeasible\")\n\n\nclass FullDecider", "C03.R3")
M("C03", "validate-not-called", INI, "        self.max_depth = max_depth\n        self.validate()\n\n    def choose_production_alternatives(self, ty: type, alternatives: list[type], ctx: LocalSynthesisContext) -> type:\n        assert len(alternatives) > 0, \"No alternatives presented\"\n        alternatives = [",
  "        self.max_depth = max_depth\n\n    def choose_production_alternatives(self, ty: type, alternatives: list[type], ctx: LocalSynthesisContext) -> type:\n        assert len(alternatives) > 0, \"No alternatives presented\"\n        alternatives = [", "C03.R3")
M("C03", "concrete-children-same-depth", INI, "            nctx = LocalSynthesisContext(context.depth + 1, context.nodes + 1, context.expansions + 1, dependent_vals)\n            for argn, argt in get_arguments(starting_symbol):",
  "            nctx = LocalSynthesisContext(context.depth, context.nodes + 1, context.expansions + 1, dependent_vals)\n            for argn, argt in get_arguments(starting_symbol):", "C03.R1")
M("C03", "union-member-one-deeper", INI, "        v = create_node(global_context, t, context, dependent_values, initial_values)", "        v = create_node(global_context, t, LocalSynthesisContext(context.depth + 1, context.nodes, context.expansions + 1, dependent_vals), dependent_values, initial_values)", "C03.R1")
M("C03", "abstract-costs-a-level", INI, "                        context=LocalSynthesisContext(\n                            context.depth,\n                            context.nodes,", "                        context=LocalSynthesisContext(\n                            context.depth + 1,\n                            context.nodes,", "C03.R1")
M("C03", "tuple-distance-min", GRM, "            return int(self.expansion_depthing) + max(\n                self.get_distance_to_terminal(t) for t in get_generic_parameters(ty)\n            )", "            return int(self.expansion_depthing) + min(\n                self.get_distance_to_terminal(t) for t in get_generic_parameters(ty)\n            )", "C03.R5")
M("C03", "mutate-recreates-at-depth-zero", TB, "                return create_node(global_context, ty, i.gengy_synthesis_context, dependent_values)", "                return create_node(global_context, ty, LocalSynthesisContext(0, 0, 0, {}), dependent_values)", "C03.R4")
M("C03", "twin-filter-mirrored", INI, "baseline = [x for x in alternatives if self.grammar.get_distance_to_terminal(x) <= (self.max_depth - ctx.depth)]", "baseline = [x for x in alternatives if (self.max_depth - ctx.depth) >= self.grammar.get_distance_to_terminal(x)]", "", expect="silent")
M("C03", "twin-validate-mirrored", DSGE, "        if self.max_depth < self.grammar.get_min_tree_depth():", "        if self.grammar.get_min_tree_depth() > self.max_depth:", "", expect="silent")

# ------------------------------------------------------------------------------------- C04
M("C04", "grow-filter-strict", INI, "        alternatives = [\n            x for x in alternatives if self.grammar.get_distance_to_terminal(x) <= (self.max_depth - ctx.depth)\n        ]\n        return self.random.choice(alternatives)\n\n    def validate",
  "        alternatives = [\n            x for x in alternatives if self.grammar.get_distance_to_terminal(x) < (self.max_depth - ctx.depth)\n        ]\n        return self.random.choice(alternatives)\n\n    def validate", "C04.R1")
M("C04", "refined-list-elements-one-level-down", INI, "context=LocalSynthesisContext(context.depth, context.nodes, context.expansions + 1, dependent_vals),",
  "context=LocalSynthesisContext(context.depth + int(is_generic_list(base_type)), context.nodes, context.expansions + 1, dependent_vals),", "C04.R1")
M("C03", "dsge-read-indexes-positions-table", DSGE, "        position = self.positions.get(ty, 0)\n", "        position = self.positions[ty]\n", "C03.R6")
M("C03", "twin-dsge-read-setdefault", DSGE, "        position = self.positions.get(ty, 0)\n        v = self.genotype.get(ty, position)\n        self.positions[ty] = position + 1\n",
  "        position = self.positions.setdefault(ty, 0)\n        v = self.genotype.get(ty, position)\n        self.positions[ty] += 1\n", "", expect="silent")
M("C04", "grow-filter-strict", INI, "            x for x in alternatives if self.grammar.get_distance_to_terminal(x) <= (self.max_depth - ctx.depth)\n        ]\n        return self.random.choice(alternatives)",
  "            x for x in alternatives if self.grammar.get_distance_to_terminal(x) < (self.max_depth - ctx.depth)\n        ] or alternatives[:1]\n        return self.random.choice(alternatives)", "C04.R6")
M("C03", "refined-list-elements-one-level-down", INI, "context=LocalSynthesisContext(context.depth, context.nodes, context.expansions + 1, dependent_vals),",
  "context=LocalSynthesisContext(context.depth + int(is_generic_list(base_type)), context.nodes, context.expansions + 1, dependent_vals),", "C03.R1")
M("C04", "twin-refined-context-built-once", INI, "        def recurse(typ: type, **kwargs):\n", "        rctx_depth = context.depth\n\n        def recurse(typ: type, **kwargs):\n", "", expect="silent",
  extra=[(INI, "context=LocalSynthesisContext(context.depth, context.nodes, context.expansions + 1, dependent_vals),", "context=LocalSynthesisContext(rctx_depth, context.nodes, context.expansions + 1, dependent_vals),")])
M("C04", "recurse-context-swapped", INI, "context=LocalSynthesisContext(context.depth, context.nodes, context.expansions + 1, dependent_vals),", "context=LocalSynthesisContext(context.nodes, context.depth, context.expansions + 1, dependent_vals),", "C04.R1")
M("C04", "list-length-from-module-random", INI, "        length = decider.random_int(0, 10)\n", "        import random as _random\n        length = _random.randint(0, 10)\n", "C04.R2")
M("C04", "full-frontier-two-above", INI, "or self.grammar.get_distance_to_terminal(x) == (self.max_depth - ctx.depth - 1)", "or self.grammar.get_distance_to_terminal(x) == (self.max_depth - ctx.depth - 2)", "C04.R3")
M("C04", "explode-annotated-not-recursive", GRM, "                elif is_generic_list(ty) or is_annotated(ty):\n                    yield from explode_generics([get_generic_parameter(ty)])", "                elif is_generic_list(ty) or is_annotated(ty):\n                    yield get_generic_parameter(ty)", "C04.R4")
M("C04", "twin-frontier-known-form", INI, "        if ctx.depth <= self.max_depth:", "        if self.max_depth >= ctx.depth:", "", expect="silent")

# ------------------------------------------------------------------------------------- C05
# Annotated[T, m] has __origin__ and __args__ == (T,), so without its own branch it is handled by the is_generic branch with
# the same effect: an equivalent mutant (the typing-runtime model of the interpreter sees that; the former syntactic rule did not)
M("C05", "twin-register-type-annotated-via-generic", GRM, "        elif is_annotated(ty):\n            gty = get_generic_parameter(ty)\n            self.register_type(gty)\n            return\n        elif is_generic(ty):", "        elif is_generic(ty):", "", expect="silent")
M("C05", "register-type-drops-generic", GRM, "        elif is_generic(ty):\n            for p in get_generic_parameters(ty):\n                self.register_type(p)\n            return\n", "", "C05.R1")
M("C05", "collect-types-list-not-recursive", GRM, "        if is_generic_list(ty):\n            gty = get_generic_parameter(ty)\n            yield from self.collect_types(gty)", "        if is_generic_list(ty):\n            gty = get_generic_parameter(ty)\n            yield gty", "C05.R1")
M("C05", "distance-annotated-multistrip", GRM, "            ta = get_generic_parameter(ty)\n            return self.get_distance_to_terminal(ta)\n        elif is_generic_list(ty):", "            return self.get_distance_to_terminal(strip_annotations(ty))\n        elif is_generic_list(ty):", "C05.R1")
M("C05", "abstract-distance-max", GRM, "                            val = min(\n                                val,\n                                int(self.expansion_depthing) + self.distanceToTerminal[prod],\n                            )", "                            val = max(\n                                val if val < INF_VALUE else 0,\n                                int(self.expansion_depthing) + self.distanceToTerminal[prod],\n                            )", "C05.R2")
M("C05", "concrete-distance-min", GRM, "val = max(1 + self.get_distance_to_terminal(argt) for (_, argt) in args)", "val = min(1 + self.get_distance_to_terminal(argt) for (_, argt) in args)", "C05.R2")
M("C05", "update-without-decrease-test", GRM, "                if val < old_val:\n                    changed = True\n                    self.distanceToTerminal[sym] = val", "                if val != old_val:\n                    changed = True\n                self.distanceToTerminal[sym] = val", "C05.R2")
M("C05", "str-loses-zero-distance", GRM, "if (sym is int or sym is float or sym is str) and not self.expansion_depthing:", "if (sym is int or sym is float) and not self.expansion_depthing:", "C05.R3")
M("C05", "reachability-filtered", GRM, "                            [argt for (_, argt) in args],\n", "                            [argt for (_, argt) in args if not is_terminal(argt, self.non_terminals)],\n", "C05.R1")
M("C05", "twin-explode-split-branches", GRM, "                elif is_generic_list(ty) or is_annotated(ty):\n                    yield from explode_generics([get_generic_parameter(ty)])", "                elif is_generic_list(ty):\n                    yield from explode_generics([get_generic_parameter(ty)])\n                elif is_annotated(ty):\n                    yield from explode_generics([get_generic_parameter(ty)])", "", expect="silent")

# ------------------------------------------------------------------------------------- C19
M("C19", "total-not-reset", GRM, "            prods = self.alternatives[rule]\n            total_weights = 0\n", "            prods = self.alternatives[rule]\n", "C19.R1",
  extra=[(GRM, "        weights = self.get_weights()\n        for rule in self.alternatives:", "        weights = self.get_weights()\n        total_weights = 0\n        for rule in self.alternatives:")])
M("C19", "divide-by-count", GRM, "                weights[prod] = weights[prod] / total_weights", "                weights[prod] = weights[prod] / len(prods)", "C19.R1")
M("C19", "sum-before-update", GRM, "                weights[prod] += learning_rate * extra_weights[prod]\n                total_weights += weights[prod]", "                total_weights += weights[prod]\n                weights[prod] += learning_rate * extra_weights[prod]", "C19.R1")
M("C19", "default-weight-or", GRM, 'get_gengy(prod).get("weight", 1.0)', '(get_gengy(prod).get("weight") or 1.0)', "C19.R1")
M("C19", "write-back-only-listed", GRM, "        for rule in self.alternatives:\n            for prod in self.alternatives[rule]:\n                get_gengy(prod)[\"weight\"] = weights[prod]\n", "", "C19.R1")
M("C19", "weight-store-in-decider", INI, "        weights = [w(alt) * self.grammar.get_weights()[alt] for alt in alternatives]", "        for alt in alternatives:\n            alt.__dict__[\"__gengy__\"][\"weight\"] = 1.0\n        weights = [w(alt) * self.grammar.get_weights()[alt] for alt in alternatives]", "C19.R2")
M("C19", "weights-misaligned", INI, "        weights = [w(alt) * self.grammar.get_weights()[alt] for alt in alternatives]", "        weights = [w(alt) * self.grammar.get_weights()[alt] for alt in sorted(self.grammar.alternatives[ty], key=str)]", "C19.R3")
M("C19", "weighted-draw-inclusive", SRC, "self.randint(0, max(total - 1, 0))", "self.randint(0, total)", "C19.R3")
M("C19", "twin-divide-augassign", GRM, "                weights[prod] = weights[prod] / total_weights", "                weights[prod] /= total_weights", "", expect="silent")

# ---- round 4 rules: mutants and twins
SGP = "geml/simplegp.py"
M("C19", "pt-decider-no-fallback", INI, "        if not any(x > 0 for x in weights):\n", "        if False:\n", "C19.R5")
M("C19", "twin-pt-decider-fallback-by-sum", INI, "        if not any(x > 0 for x in weights):\n", "        if max(weights, default=0) <= 0:\n", "", expect="silent")
M("C14", "build-budget-truthiness", SGP, "        if target_fitness is None:\n            return base\n        else:\n            return AnyOf(TargetFitness(target_fitness), base)",
  "        if not target_fitness:\n            return base\n        else:\n            return AnyOf(TargetFitness(target_fitness), base)", "C14.R6")
M("C14", "twin-build-budget-flat", SGP, "        if target_fitness is None:\n            return base\n        else:\n            return AnyOf(TargetFitness(target_fitness), base)",
  "        if target_fitness is not None:\n            base = AnyOf(TargetFitness(target_fitness), base)\n        return base", "", expect="silent")
M("C14", "target-fitness-default-problem", BUD, "        comps = best.get_fitness(tracker.get_problem()).fitness_components\n        if isinstance(self.value, float):",
  "        comps = best.get_fitness().fitness_components\n        if isinstance(self.value, float):", "C14.R3")
M("C20", "recorder-fields-truthiness", REC, "        if fields is not None:\n            self.fields = fields\n", "        if fields:\n            self.fields = dict(fields)\n", "C20.R3")
M("C20", "twin-recorder-fields-copied", REC, "        if fields is not None:\n            self.fields = fields\n", "        if fields is not None:\n            self.fields = dict(fields)\n", "", expect="silent")
M("C18", "decider-wide-range-memo-by-width", INI, "            half = width // 2\n            n = self.random.randint(0, 10)\n            e = self.random.randint(0, round(log10(width)))\n\n            extra = pow(n, e) % (half + 1)\n            extra = extra if self.random_bool() else -extra\n            v = min_int + half + extra\n            return v",
  "            if not hasattr(self, \"_wide\"):\n                self._wide = {}\n            if width not in self._wide:\n                self._wide[width] = (min_int + width // 2, width // 2)\n            centre, half = self._wide[width]\n            n = self.random.randint(0, 10)\n            e = self.random.randint(0, round(log10(width)))\n\n            extra = pow(n, e) % (half + 1)\n            extra = extra if self.random_bool() else -extra\n            return centre + extra", "C18.R5")
M("C18", "twin-decider-exponent-memo-by-width", INI, "            e = self.random.randint(0, round(log10(width)))\n\n            extra = pow(n, e) % (half + 1)",
  "            if not hasattr(self, \"_exp\"):\n                self._exp = {}\n            if width not in self._exp:\n                self._exp[width] = round(log10(width))\n            e = self.random.randint(0, self._exp[width])\n\n            extra = pow(n, e) % (half + 1)", "", expect="silent")
M("C15", "mutation-step-counts-only-mutants", MUT, "        for index, ind in enumerate(population):\n            if index < target_size:\n                v = random.random_float(0, 1)\n                if v <= self.probability:\n                    logger.debug(f\"Mutating {id(ind)}\")\n                    mutated = representation.mutate(random, ind.genotype)\n                    nind = self.wrap(representation, mutated)\n                    yield nind\n                else:\n                    yield ind",
  "        produced = 0\n        for ind in population:\n            if produced >= target_size:\n                break\n            v = random.random_float(0, 1)\n            if v <= self.probability:\n                mutated = representation.mutate(random, ind.genotype)\n                nind = self.wrap(representation, mutated)\n                yield nind\n                produced += 1\n            else:\n                yield ind", "C15.R2")
M("C15", "twin-mutation-step-counter-loop", MUT, "        for index, ind in enumerate(population):\n            if index < target_size:\n                v = random.random_float(0, 1)\n                if v <= self.probability:\n                    logger.debug(f\"Mutating {id(ind)}\")\n                    mutated = representation.mutate(random, ind.genotype)\n                    nind = self.wrap(representation, mutated)\n                    yield nind\n                else:\n                    yield ind",
  "        produced = 0\n        for ind in population:\n            if produced >= target_size:\n                break\n            v = random.random_float(0, 1)\n            if v <= self.probability:\n                mutated = representation.mutate(random, ind.genotype)\n                nind = self.wrap(representation, mutated)\n                yield nind\n                produced += 1\n            else:\n                yield ind\n                produced += 1", "", expect="silent")
M("C16", "parallel-shares-truncated", COMB, "            [int(round(w * len(population) / total, 0)) for w in self.weights],", "            [int(w / total * len(population)) for w in self.weights],", "C16.R4")
M("C16", "twin-parallel-shares-rounded-proportions", COMB, "            [int(round(w * len(population) / total, 0)) for w in self.weights],", "            [int(round(w / total * len(population))) for w in self.weights],", "", expect="silent")

# ---- round 5 rules
HCS = "geneticengine/algorithms/hill_climbing.py"
XOS = "geneticengine/algorithms/gp/operators/crossover.py"
M("C14", "hc-two-batches-per-check", HCS, "                self.tracker.evaluate([ind])\n            else:\n", "                self.tracker.evaluate([ind])\n            if True:\n", "C14.R2")
M("C14", "twin-hc-seed-before-loop-shape", HCS, "            current_ind = self.tracker.get_best_individual()\n        return self.tracker.get_best_individual()",
  "            best_so_far = self.tracker.get_best_individual()\n            current_ind = best_so_far\n        return self.tracker.get_best_individual()", "", expect="silent")
M("C08", "register-type-subclass-registry", GRM, "        for st in self.considered_subtypes:\n            if issubclass(st, ty):\n                self.register_type(st)",
  "        for st in type.__subclasses__(ty):\n            if st in self.considered_subtypes:\n                self.register_type(st)", "C08.R3")
M("C19", "stack-nonterminals-constant-weight", STK, "                [weights.get(x, 1) for x in all_stack_types],", "                [1 if x in g.alternatives else weights.get(x, 1) for x in all_stack_types],", "C19.R3")
M("C19", "twin-stack-weights-hoisted-list", STK, "                [weights.get(x, 1) for x in all_stack_types],", "                [weights.get(t, 1) for t in all_stack_types],", "", expect="silent")
M("C15", "crossover-odd-child-from-extra-pair", XOS, "        if (target_size // 2) * 2 < target_size:\n            yield npopulation[0]", "        if (target_size // 2) * 2 < target_size and len(npopulation) > 1:\n            yield npopulation[0]", "C15.R2")

# ---- round 6: multi-path helpers joined in the affine engine, template-method choosers analysed per receiving class
_WIDE_OLD = "            half = width // 2\n            n = self.random.randint(0, 10)\n            e = self.random.randint(0, round(log10(width)))\n\n            extra = pow(n, e) % (half + 1)\n            extra = extra if self.random_bool() else -extra\n            v = min_int + half + extra\n            return v"
_WIDE_HELPER = "\n    def _signed_offset(self, width: int) -> int:\n        base = self.random.randint(0, 10)\n        exponent = self.random.randint(0, round(log10(width)))\n        magnitude = pow(base, exponent) %% (width // 2 + %s)\n        return magnitude if self.random_bool() else -magnitude\n\n    def random_float(self) -> float:\n"
M("C18", "twin-decider-signed-offset-helper", INI, _WIDE_OLD, "            return min_int + width // 2 + self._signed_offset(width)", "", expect="silent",
  extra=[(INI, "\n    def random_float(self) -> float:\n", _WIDE_HELPER % "1")])
M("C18", "decider-signed-offset-helper-wider", INI, _WIDE_OLD, "            return min_int + width // 2 + self._signed_offset(width)", "C18.R1",
  extra=[(INI, "\n    def random_float(self) -> float:\n", _WIDE_HELPER % "2")])
_GROW_OLD = "        alternatives = [\n            x for x in alternatives if self.grammar.get_distance_to_terminal(x) <= (self.max_depth - ctx.depth)\n        ]\n        return self.random.choice(alternatives)\n"
_GROW_NEW = "        budget = self.max_depth - ctx.depth\n        fitting = [x for x in alternatives if budget >= self.grammar.get_distance_to_terminal(x)]\n        return self.random.choice(self.preferred_alternatives(fitting, budget, ctx) or fitting)\n\n    def preferred_alternatives(self, fitting, budget, ctx):\n        return []\n"
_FULL_OLD = "    def choose_production_alternatives(self, ty: type, alternatives: list[type], ctx: LocalSynthesisContext) -> type:\n        assert len(alternatives) > 0, \"No alternatives presented\"\n        if ctx.depth <= self.max_depth:\n            c_alternatives = [\n                x\n                for x in alternatives\n                if (\n                    x in self.grammar.recursive_prods\n                    and self.grammar.get_distance_to_terminal(x) < (self.max_depth - ctx.depth)\n                )\n                or self.grammar.get_distance_to_terminal(x) == (self.max_depth - ctx.depth - 1)\n            ]\n        else:\n            c_alternatives = []\n        if not c_alternatives:\n            c_alternatives = [\n                x for x in alternatives if self.grammar.get_distance_to_terminal(x) <= (self.max_depth - ctx.depth)\n            ]\n        return self.random.choice(c_alternatives)\n"
_FULL_NEW = "    def preferred_alternatives(self, fitting, budget, ctx):\n        if budget < 0:\n            return []\n        return [\n            x\n            for x in fitting\n            if (x in self.grammar.recursive_prods and self.grammar.get_distance_to_terminal(x) < budget)\n            or self.grammar.get_distance_to_terminal(x) == budget - %s\n        ]\n"
M("C04", "twin-full-decider-template-method", INI, _GROW_OLD, _GROW_NEW, "", expect="silent", extra=[(INI, _FULL_OLD, _FULL_NEW % "1")])
M("C04", "full-decider-template-method-frontier-two-below", INI, _GROW_OLD, _GROW_NEW, "C04.R3", extra=[(INI, _FULL_OLD, _FULL_NEW % "2")])

# ---- round 6 rules: twins (the seeded changes of the round are the mutants)
IND = "geneticengine/solutions/individual.py"
_POP_OLD = "        item = lst.pop()\n        total_len = len(lst)\n\n        i = self.randint(0, total_len)\n        if i == total_len:\n            return item\n\n        lst[i], item = item, lst[i]\n\n        return item\n"
M("C18", "twin-pop-random-swap-remove-guarded", SRC, _POP_OLD,
  "        i = self.randint(0, len(lst) - 1)\n        last = lst.pop()\n        if i == len(lst):\n            return last\n        item = lst[i]\n        lst[i] = last\n        return item\n", "", expect="silent")
M("C18", "pop-random-swap-remove-unguarded", SRC, _POP_OLD,
  "        i = self.randint(0, len(lst) - 1)\n        item = lst[i]\n        lst[i] = lst.pop()\n        return item\n", "C18.R3")
for _pid in ("C13", "C09"):
    M(_pid, "twin-multi-objective-components-copied", PRB, "        multiple = [float(x) for x in lst]\n", "        multiple = list(map(float, lst))\n", "", expect="silent")
    M(_pid, "multi-objective-components-aliased", PRB, "        multiple = [float(x) for x in lst]\n",
      "        multiple = lst if isinstance(lst, list) else [float(x) for x in lst]\n", _pid + (".R3" if _pid == "C13" else ".R5"))
_GS = "    def get_phenotype(self):\n        if self.phenotype is None:"
M("C13", "twin-individual-getstate-keeps-program", IND, _GS,
  "    def __getstate__(self):\n        return {\"genotype\": self.genotype, \"representation\": self.representation, \"phenotype\": self.phenotype, \"metadata\": self.metadata}\n\n"
  "    def __setstate__(self, state):\n        self.__dict__.update(state)\n        self.fitness_store = weakref.WeakKeyDictionary()\n\n" + _GS, "", expect="silent")
M("C13", "individual-getstate-drops-program", IND, _GS,
  "    def __getstate__(self):\n        return {\"genotype\": self.genotype, \"representation\": self.representation, \"metadata\": self.metadata}\n\n"
  "    def __setstate__(self, state):\n        self.__dict__.update(state)\n        self.fitness_store = weakref.WeakKeyDictionary()\n\n" + _GS, "C13.R2")
_PP_OLD = "        is_best = False\n        if self.best_individual is None:\n            self.best_individual = individual\n            is_best = True\n        elif problem.is_better(individual.get_fitness(problem), self.best_individual.get_fitness(problem)):\n            self.best_individual = individual\n            is_best = True\n        else:\n            is_best = False\n"
M("C12", "twin-post-process-improved-flag", TRK, _PP_OLD,
  "        is_best = self.best_individual is None or problem.is_better(individual.get_fitness(problem), self.best_individual.get_fitness(problem))\n        if is_best:\n            self.best_individual = individual\n", "", expect="silent")
M("C12", "post-process-flag-by-identity", TRK, _PP_OLD,
  "        if self.best_individual is None or problem.is_better(individual.get_fitness(problem), self.best_individual.get_fitness(problem)):\n            self.best_individual = individual\n        is_best = individual is self.best_individual\n", "C12.R1")
M("C12", "is-better-with-noise-tolerance", PRB, "        return a.maximizing_aggregate > b.maximizing_aggregate",
  "        if abs(a.maximizing_aggregate - b.maximizing_aggregate) <= 1e-9 * max(abs(a.maximizing_aggregate), abs(b.maximizing_aggregate)):\n            return False\n        return a.maximizing_aggregate > b.maximizing_aggregate", "C12.R2")
M("C12", "twin-is-better-two-returns", PRB, "        return a.maximizing_aggregate > b.maximizing_aggregate",
  "        if a.maximizing_aggregate > b.maximizing_aggregate:\n            return True\n        return False", "", expect="silent")
_MD_INIT = "        self.max_depth = max_depth\n        self.validate()\n"
_MD_HELP = "\n    def distance_to_terminal(self, ty: type) -> int:\n        if ty not in self._distances:\n            self._distances[ty] = self.grammar.get_distance_to_terminal(ty)\n        return self._distances[ty]\n\n    def choose_production_alternatives(self, ty: type, alternatives: list[type], ctx: LocalSynthesisContext) -> type:\n        assert len(alternatives) > 0, \"No alternatives presented\"\n        alternatives = [\n            x for x in alternatives if self.distance_to_terminal(x) <= (self.max_depth - ctx.depth)\n        ]\n"
_MD_ANCH = "\n    def choose_production_alternatives(self, ty: type, alternatives: list[type], ctx: LocalSynthesisContext) -> type:\n        assert len(alternatives) > 0, \"No alternatives presented\"\n        alternatives = [\n            x for x in alternatives if self.grammar.get_distance_to_terminal(x) <= (self.max_depth - ctx.depth)\n        ]\n"
for _pid in ("C10", "C07", "C03", "C04"):
    M(_pid, "twin-decider-distance-memo-on-a-copy", INI, _MD_INIT, "        self.max_depth = max_depth\n        self._distances = dict(grammar.distanceToTerminal)\n        self.validate()\n", "",
      expect="silent", extra=[(INI, _MD_ANCH, _MD_HELP)])
M("C10", "decider-distance-memo-on-the-grammar-table", INI, _MD_INIT, "        self.max_depth = max_depth\n        self._distances = grammar.distanceToTerminal\n        self.validate()\n", "C10.R1",
  extra=[(INI, _MD_ANCH, _MD_HELP)])
