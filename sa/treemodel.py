"""Finite models of the tree creator (create_node) and the tree mutator (mutate), interpreted by sa/modelinterp.

The grammar presents a handful of *type forms* (int/float/bool, list[T], tuple[..], Annotated[T, refinement], Union[..],
abstract symbol, concrete production).  A scenario fixes one symbolic type of one form; the creator's source is interpreted
on it with the repository's own type-form predicates inlined (is_generic_list, is_metahandler, is_union ... are evaluated
on a model of what the typing runtime exposes: __origin__, __metadata__, __args__, get_origin), recursive creation calls
recorded with their bound arguments (dicts snapshotted), and deciders / refinements replaced by symbolic stand-ins.  Rules
compare the recorded effects with what the property requires for that form.  Nothing is executed.
"""
from __future__ import annotations

import ast
from typing import Any, Optional

from .astutil import call_name
from .frontend import FunctionInfo, dotted
from .modelinterp import (BUILTIN_TYPES, Budget, Effect, Interp, LocalFn, Obj, Sym, TypeV, UNKNOWN, _NONE)

CREATE_NODE = "geneticengine.representations.tree.initializations:create_node"
MUTATE = "geneticengine.representations.tree.treebased:mutate"

INT = BUILTIN_TYPES["int"]
A = TypeV("class", "A")
B = TypeV("class", "B")
MH = Sym("MH")
MHL = Sym("MHL")
ANN_INT = TypeV("annotated", "Annotated[int, MH]", (INT,), MH)
LIST_A = TypeV("list", "list[A]", (A,))
ANN_LIST = TypeV("annotated", "Annotated[list[A], MHL]", (LIST_A,), MHL)
TUPLE_AB = TypeV("tuple", "tuple[A, B]", (A, B))
UNION_AB = TypeV("union", "Union[A, B]", (A, B))
ABSTRACT = TypeV("class", "Abs")
PROD = TypeV("class", "P")


def bind(fn: FunctionInfo, args: list, kwargs: dict) -> dict:
    a = fn.node.args
    names = [x.arg for x in a.posonlyargs + a.args]
    out = {}
    for n_, v in zip(names, args):
        out[n_] = v
    out.update(kwargs)
    return out


def snap(v: Any) -> Any:
    if isinstance(v, dict):
        return dict(v)
    if isinstance(v, list):
        return list(v)
    if isinstance(v, Obj):
        return Obj(v.cls, {k: snap(x) for k, x in v.fields.items()})
    return v


class TreeModel:
    """call / atom models shared by the creator and mutator scenarios"""

    def __init__(self, ctx, *, abstract: tuple = (ABSTRACT,), fields: Optional[dict] = None, alternatives: Optional[dict] = None,
                 deps: Optional[dict] = None, ints: Optional[dict] = None, weights: Optional[dict] = None,
                 hasattrs: Optional[dict] = None, extra_calls: Optional[dict] = None):
        self.ctx = ctx
        self.prog = ctx.prog
        self.abstract = abstract
        self.fields = fields or {}
        self.alternatives = alternatives or {ABSTRACT: [PROD, A]}
        self.deps = deps or {}
        self.ints = ints or {}
        self.weights = weights or {}
        self.hasattrs = hasattrs or {}
        self.extra_calls = extra_calls or {}
        self.cn = ctx.prog.functions.get(CREATE_NODE)
        self.mu = ctx.prog.functions.get(MUTATE)

    # --- atoms: membership in the grammar's tables
    def atom(self, it: Interp, e: ast.AST, env: dict) -> Any:
        if isinstance(e, ast.Compare) and len(e.ops) == 1 and isinstance(e.ops[0], (ast.In, ast.NotIn)):
            d = dotted(e.comparators[0]) or ""
            left = it.ev(e.left, env, 9)
            if isinstance(left, TypeV):
                r = None
                if d.endswith(".alternatives"):
                    r = left in self.alternatives
                elif d.endswith(".all_nodes"):
                    r = left.kind == "class"
                elif d.endswith(".recursive_prods"):
                    r = False
                if r is not None:
                    return r if isinstance(e.ops[0], ast.In) else not r
        if isinstance(e, ast.Subscript):
            d = dotted(e.value) or ""
            if d.endswith(".alternatives"):
                k = it.ev(e.slice, env, 9)
                if isinstance(k, TypeV) and k in self.alternatives:
                    return list(self.alternatives[k])
        return None

    def call_model(self, it: Interp, call: ast.Call, env: dict, args: list, kwargs: dict) -> Any:
        nm = call_name(call)
        fn = it.fn_stack[-1]
        if nm in self.extra_calls:
            r = self.extra_calls[nm](it, call, env, args, kwargs)
            if r is not None:
                return r
        if isinstance(call.func, ast.Name) and nm in ("create_node", "mutate"):
            target = self.cn if nm == "create_node" else self.mu
            b = bind(target, args, kwargs) if target is not None else dict(kwargs)
            it.trace.append(Effect("call", nm, tuple(args), {k: snap(v) for k, v in b.items()}, node=call, fn=fn))
            ty = b.get("starting_symbol") if nm == "create_node" else b.get("i")
            tag = ty.name if isinstance(ty, TypeV) else ty.tag if isinstance(ty, Sym) else "?"
            return Sym(("node:" if nm == "create_node" else "new:") + tag)
        if nm == "get_arguments" and len(args) == 1:
            t = args[0]
            if isinstance(t, TypeV) and t in self.fields:
                return [[n_, ty] for n_, ty in self.fields[t]]
            return UNKNOWN
        if nm == "type" and len(args) == 1 and isinstance(args[0], Sym) and args[0].tag in self.hasattrs.get("__typeof__", {}):
            return self.hasattrs["__typeof__"][args[0].tag]
        if nm == "generate" and isinstance(call.func, ast.Attribute):
            recv = it.ev(call.func.value, env, 9)
            it.trace.append(Effect("call", "generate", tuple(snap(a) for a in args), {k: snap(v) for k, v in kwargs.items()},
                                   node=call, fn=fn, recv=recv))
            rec = args[3] if len(args) > 3 else kwargs.get("rec")
            if isinstance(rec, LocalFn) and len(args) > 2:
                # a refinement may ask for values through the callback it is given: of the base type, or - the list
                # refinements - of the element type of a list base type
                base = args[2]
                it.call_local(rec, [base.args[0] if isinstance(base, TypeV) and base.kind == "list" and base.args else base], {}, 1, env)
            return Sym("generated")
        if nm == "get_dependencies" and isinstance(call.func, ast.Attribute):
            recv = it.ev(call.func.value, env, 9)
            return list(self.deps.get(recv.tag if isinstance(recv, Sym) else None, []))
        if nm == "choose_production_alternatives" and len(args) >= 2:
            it.trace.append(Effect("call", nm, tuple(snap(a) for a in args), {}, node=call, fn=fn))
            alts = args[1]
            return alts[0] if isinstance(alts, list) and alts else Sym("chosen")
        if nm in ("random_int", "randint", "random_float", "random_bool") and isinstance(call.func, ast.Attribute):
            key = f"{fn.name}:{nm}"
            recv = it.ev(call.func.value, env, 9)
            it.trace.append(Effect("call", nm, tuple(args), dict(kwargs), node=call, fn=fn, recv=recv))
            if key in self.ints:
                return self.ints[key]
            return Sym(f"{nm}()")
        if nm == "number_of_nodes":
            return 1
        if nm == "get_weighted_nodes" and len(args) == 1:
            return self.weights.get(args[0].tag if isinstance(args[0], Sym) else None, 1)
        if nm == "is_builtin_class_instance":
            return False
        if nm == "relabel_nodes_of_trees":
            return args[0] if args else _NONE
        if nm == "apply_constructor":
            it.trace.append(Effect("call", nm, tuple(snap(a) for a in args), {}, node=call, fn=fn))
            return Sym("built")
        if nm == "GengyList":
            it.trace.append(Effect("call", nm, tuple(snap(a) for a in args), {}, node=call, fn=fn))
            return Sym("gengylist")
        if nm == "is_abstract" and len(args) == 1 and isinstance(args[0], TypeV):
            return args[0] in self.abstract
        if nm == "hasattr" and len(args) == 2 and isinstance(args[0], Sym) and isinstance(args[1], str):
            table = self.hasattrs.get(args[0].tag)
            if table is not None:
                return table.get(args[1], True)
        return None

    def interp(self, cls=None, max_traces: int = 96, max_depth: int = 5) -> Interp:
        it = Interp(self.prog, cls, self.atom, self.call_model, max_depth=max_depth, max_traces=max_traces)
        it.instantiate_classes = True      # a per-call helper object of the repository (a method object for one expansion step) is followed
        return it


def create_node_runs(ctx, model: TreeModel, symbol: Any, *, dependent_values: Any = None, initial_values: Any = None,
                     depth: int = 2, nodes: int = 1, expansions: int = 1):
    """interpret create_node(global_context, symbol, context, dependent_values, initial_values)"""
    cn = model.cn
    if cn is None:
        from .frontend import AnalysisError
        raise AnalysisError(f"anchor function missing: {CREATE_NODE}")
    it = model.interp()
    p = cn.params
    gc = Obj("GlobalSynthesisContext", {"random": Sym("random"), "grammar": Sym("grammar"), "decider": Sym("decider")})
    lc = Obj("LocalSynthesisContext", {"depth": depth, "nodes": nodes, "expansions": expansions,
                                       "dependent_values": {"ctxdep": Sym("ctxdep")}})
    env = {p[0]: gc, p[1]: symbol, p[2]: lc}
    if len(p) > 3:
        env[p[3]] = dependent_values
    if len(p) > 4:
        env[p[4]] = initial_values
    return it.run(cn, env)
