"""E5: typestate of one-shot iterators.

For a function parameter declared ``Iterator[...]`` / ``Iterable[...]`` / ``Generator[...]`` the analysis
computes, by abstract interpretation over the structured statements (branches joined, loops iterated to a
fixpoint), how many *consuming uses* of the parameter (or of a plain alias of it) can occur on some path:
0, 1 or 2+ (saturating).  A consuming use is: being iterated (for / comprehension / ``yield from``), being
handed to an eager builtin (``list``, ``sorted``, ``max`` ...), or being passed to a callee whose own
summary consumes the corresponding parameter (resolved through the class hierarchy; an unknown callee is
assumed to consume).  Re-binding the name to a materialised copy (``p = list(p)``) ends the tracking.
The second consuming use on a path is the reported construct.
"""
from __future__ import annotations

import ast
from dataclasses import dataclass, field
from typing import Optional

from .astutil import call_name
from .frontend import FunctionInfo, Program, dotted, norm
from .resolve import Resolver

NON_CONSUMING_CALLS = {"isinstance", "id", "type", "print", "repr", "str", "hasattr", "callable", "debug", "info",
                       "warning", "error", "bool"}
EAGER = {"list", "tuple", "set", "frozenset", "sorted", "sum", "any", "all", "max", "min", "dict", "enumerate", "zip",
         "iter", "map", "filter", "reversed", "next", "join", "extend", "reduce", "Counter", "deque", "array", "chain"}
ITER_TYPES = {"Iterator", "Iterable", "Generator", "typing.Iterator", "typing.Iterable", "typing.Generator",
              "collections.abc.Iterator", "collections.abc.Iterable", "collections.abc.Generator"}


def iterator_params(fn: FunctionInfo) -> list[tuple[int, str]]:
    out = []
    a = fn.node.args
    allargs = a.posonlyargs + a.args + a.kwonlyargs
    for i, arg in enumerate(allargs):
        ann = arg.annotation
        if ann is None:
            continue
        if isinstance(ann, ast.Constant) and isinstance(ann.value, str):
            try:
                ann = ast.parse(ann.value, mode="eval").body
            except SyntaxError:
                continue
        head = ann.value if isinstance(ann, ast.Subscript) else ann
        d = dotted(head)
        if d in ITER_TYPES:
            out.append((i, arg.arg))
    return out


@dataclass
class St:
    count: int = 0
    aliases: frozenset = frozenset()
    first: Optional[ast.AST] = None
    second: Optional[ast.AST] = None

    def join(self, o: Optional["St"]) -> "St":
        if o is None:
            return self
        a, b = (self, o) if self.count >= o.count else (o, self)
        return St(a.count, self.aliases | o.aliases, a.first or b.first, a.second or b.second)

    def key(self):
        return (self.count, self.aliases)


class ConsumeAnalysis:
    def __init__(self, prog: Program, res: Resolver, depth: int = 4):
        self.prog, self.res, self.depth = prog, res, depth
        self._summary: dict[tuple[str, int], bool] = {}
        self._inprogress: set[tuple[str, int]] = set()

    # ---------------------------------------------------------------- summaries
    def callee_consumes(self, callee: FunctionInfo, idx: int, depth: int) -> bool:
        key = (callee.fullname, idx)
        if key in self._summary:
            return self._summary[key]
        if key in self._inprogress or depth <= 0:
            return True
        params = callee.params
        if idx >= len(params):
            return True
        self._inprogress.add(key)
        try:
            st = self.analyse(callee, params[idx], depth - 1)
            r = st.count >= 1
        finally:
            self._inprogress.discard(key)
        self._summary[key] = r
        return r

    # ----------------------------------------------------------------- analysis
    def analyse(self, fn: FunctionInfo, pname: str, depth: Optional[int] = None) -> St:
        """Disjunctive (powerset) abstract interpretation: a state is (count, aliases); sets of states are
        propagated so that 'npop is an alias only while nothing was consumed' is not lost at joins."""
        depth = self.depth if depth is None else depth
        worst = [St(0, frozenset({pname}))]

        def note(s: St) -> St:
            w = worst[0]
            if s.count > w.count or (s.count == w.count and s.second is not None and w.second is None):
                worst[0] = s
            return s

        def consume(s: St, node: ast.AST, times: int = 1) -> St:
            c, first, second = s.count, s.first, s.second
            for _ in range(times):
                c += 1
                if c == 1 and first is None:
                    first = node
                if c >= 2 and second is None:
                    second = node
            return note(St(min(c, 2), s.aliases, first, second))

        def uses_in_expr(s: St, e: Optional[ast.AST]) -> St:
            if e is None:
                return s
            for n in self._ordered(e):
                if isinstance(n, (ast.ListComp, ast.SetComp, ast.DictComp, ast.GeneratorExp)):
                    for gi, g in enumerate(n.generators):
                        if isinstance(g.iter, ast.Name) and g.iter.id in s.aliases:
                            s = consume(s, g.iter, 1 if gi == 0 else 2)
                        else:
                            s = uses_in_expr(s, g.iter) if gi == 0 else s
                    elts = [n.key, n.value] if isinstance(n, ast.DictComp) else [n.elt]
                    for el in elts:
                        for x in ast.walk(el):
                            if isinstance(x, ast.Name) and x.id in s.aliases and isinstance(x.ctx, ast.Load) \
                                    and self._consuming_context(fn, x, s, depth):
                                s = consume(s, x, 2)  # once per element
                elif isinstance(n, ast.Name) and n.id in s.aliases and isinstance(n.ctx, ast.Load):
                    if self._consuming_context(fn, n, s, depth):
                        s = consume(s, n)
            return s

        def dedupe(states: list[St]) -> list[St]:
            seen: dict = {}
            for x in states:
                k = x.key()
                if k not in seen or (seen[k].second is None and x.second is not None):
                    seen[k] = x
            return list(seen.values())

        def exec_block(stmts: list[ast.stmt], states: list[St]) -> list[St]:
            for stt in stmts:
                if not states:
                    return []
                nxt: list[St] = []
                for s in states:
                    nxt.extend(exec_stmt(stt, s))
                states = dedupe(nxt)
            return states

        def exec_stmt(stt: ast.stmt, s: St) -> list[St]:
            if isinstance(stt, (ast.FunctionDef, ast.AsyncFunctionDef, ast.ClassDef, ast.Import, ast.ImportFrom,
                                ast.Pass, ast.Global, ast.Nonlocal, ast.Delete)):
                return [s]
            if isinstance(stt, ast.Assign):
                s = uses_in_expr(s, stt.value)
                for t in stt.targets:
                    if isinstance(t, ast.Name):
                        if isinstance(stt.value, ast.Name) and stt.value.id in s.aliases:
                            s = St(s.count, s.aliases | {t.id}, s.first, s.second)
                        elif t.id in s.aliases:
                            s = St(s.count, s.aliases - {t.id}, s.first, s.second)
                    else:
                        s = uses_in_expr(s, t)
                return [s]
            if isinstance(stt, (ast.AugAssign, ast.AnnAssign)):
                s = uses_in_expr(s, stt.value)
                if isinstance(stt.target, ast.Name) and isinstance(stt, ast.AnnAssign):
                    if isinstance(stt.value, ast.Name) and stt.value.id in s.aliases:
                        s = St(s.count, s.aliases | {stt.target.id}, s.first, s.second)
                    elif stt.target.id in s.aliases and stt.value is not None:
                        s = St(s.count, s.aliases - {stt.target.id}, s.first, s.second)
                return [s]
            if isinstance(stt, ast.Expr):
                return [uses_in_expr(s, stt.value)]
            if isinstance(stt, ast.Return):
                uses_in_expr(s, stt.value)
                return []
            if isinstance(stt, (ast.Raise, ast.Break, ast.Continue)):
                return []
            if isinstance(stt, ast.If):
                s = uses_in_expr(s, stt.test)
                return exec_block(stt.body, [s]) + exec_block(stt.orelse, [s])
            if isinstance(stt, (ast.For, ast.AsyncFor)):
                s = uses_in_expr(s, stt.iter)
                tnames = {n.id for n in ast.walk(stt.target) if isinstance(n, ast.Name)}
                if tnames & s.aliases:
                    s = St(s.count, s.aliases - tnames, s.first, s.second)
                return loop(stt.body, stt.orelse, s)
            if isinstance(stt, ast.While):
                s = uses_in_expr(s, stt.test)
                return loop(stt.body, stt.orelse, s, test=stt.test)
            if isinstance(stt, ast.Try):
                a = exec_block(stt.body, [s])
                out = list(a)
                for h in stt.handlers:
                    out += exec_block(h.body, dedupe([s] + a))
                if stt.orelse:
                    out = exec_block(stt.orelse, a) + [x for x in out if x not in a]
                if stt.finalbody:
                    out = exec_block(stt.finalbody, dedupe(out) or [s])
                return dedupe(out)
            if isinstance(stt, (ast.With, ast.AsyncWith)):
                for it in stt.items:
                    s = uses_in_expr(s, it.context_expr)
                return exec_block(stt.body, [s])
            if isinstance(stt, ast.Assert):
                return [uses_in_expr(s, stt.test)]
            if hasattr(ast, "Match") and isinstance(stt, ast.Match):
                s = uses_in_expr(s, stt.subject)
                out = []
                for c in stt.cases:
                    out += exec_block(c.body, [s])
                return dedupe(out + [s])
            return [s]

        def loop(body, orelse, s0: St, test=None) -> list[St]:
            reach = {s0.key(): s0}
            frontier = [s0]
            for _ in range(6):
                r = exec_block(body, frontier)
                if test is not None:
                    r = [uses_in_expr(x, test) for x in r]
                new = [x for x in r if x.key() not in reach]
                for x in new:
                    reach[x.key()] = x
                if not new:
                    break
                frontier = new
            states = list(reach.values())
            return exec_block(orelse, states) if orelse else states

        end = exec_block(fn.node.body, [worst[0]])
        res = worst[0]
        for e_ in end:
            if e_.count > res.count:
                res = e_
        return res

    # ------------------------------------------------------------------ helpers
    @staticmethod
    def _ordered(e: ast.AST):
        """Nodes of an expression, outer comprehension nodes first, not descending into comprehensions/lambdas."""
        stack = [e]
        while stack:
            n = stack.pop()
            yield n
            if isinstance(n, (ast.ListComp, ast.SetComp, ast.DictComp, ast.GeneratorExp, ast.Lambda)):
                continue
            stack.extend(reversed(list(ast.iter_child_nodes(n))))

    @staticmethod
    def _inside_comp(n: ast.AST, root: ast.AST) -> bool:
        from .frontend import ancestors
        for a in ancestors(n):
            if a is root:
                return isinstance(root, (ast.ListComp, ast.SetComp, ast.DictComp, ast.GeneratorExp)) and False
            if isinstance(a, (ast.ListComp, ast.SetComp, ast.DictComp, ast.GeneratorExp, ast.Lambda)):
                return True
        return False

    def _consuming_context(self, fn: FunctionInfo, n: ast.Name, s: St, depth: int) -> bool:
        from .frontend import parent
        p = parent(n)
        if isinstance(p, (ast.For, ast.AsyncFor)) and p.iter is n:
            return True
        if isinstance(p, ast.comprehension) and p.iter is n:
            return True
        if isinstance(p, ast.YieldFrom):
            return True
        if isinstance(p, ast.Starred):
            return True
        if isinstance(p, ast.keyword):
            p2 = parent(p)
            return self._call_consumes(fn, p2, n, depth, kw=p.arg) if isinstance(p2, ast.Call) else True
        if isinstance(p, ast.Call):
            if p.func is n:
                return False
            return self._call_consumes(fn, p, n, depth)
        if isinstance(p, ast.Compare):
            return any(isinstance(op, (ast.In, ast.NotIn)) for op in p.ops) and n in p.comparators
        if isinstance(p, (ast.Return, ast.Yield)):
            return False  # handed on unconsumed
        if isinstance(p, (ast.Tuple, ast.List)):
            return False
        if isinstance(p, ast.Attribute):
            return False
        if isinstance(p, ast.Assign):
            return False
        if isinstance(p, (ast.BoolOp, ast.UnaryOp, ast.IfExp)):
            return False
        return False

    def _call_consumes(self, fn: FunctionInfo, call: ast.Call, n: ast.Name, depth: int, kw: Optional[str] = None) -> bool:
        name = call_name(call)
        if name in NON_CONSUMING_CALLS:
            return False
        owner = self.prog.function_containing(call) or fn
        t = self.res.resolve(owner, call)
        if t.kind in ("repo",) and t.targets:
            res = False
            for g in t.targets:
                params = g.params
                off = 1 if (g.cls is not None and params and params[0] in ("self", "cls")
                            and isinstance(call.func, ast.Attribute)) else 0
                if kw is not None:
                    idx = params.index(kw) if kw in params else -1
                else:
                    idx = call.args.index(n) + off
                if idx < 0 or idx >= len(params):
                    res = True
                else:
                    res = res or self.callee_consumes(g, idx, depth)
            return res
        if t.kind == "ctor":
            if t.targets:
                g = t.targets[0]
                idx = (g.params.index(kw) if kw in g.params else -1) if kw is not None else call.args.index(n) + 1
                if 0 <= idx < len(g.params):
                    return self.callee_consumes(g, idx, depth)
            return True
        return True  # builtin / external / unresolved: assume it iterates its argument
