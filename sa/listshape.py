"""A list-shape abstract domain for integer lists built by running sums, clamps and concatenation.

An abstract list records what is known about *every* concrete list the code can build at that point:
  first / last   the first / last element (affine value) when known
  lb / ub        a lower / upper bound of all elements (affine values) when known
  mono           the list is non-decreasing
  known          every operation that produced it was recognised (False = the shape is only partially known)

Transfer functions: list literals, a + b, [f(x) for x in xs] with f in {x, min(x, K), max(x, K), int(round(...)) (non-negative by
the weights contract)}, list()/tuple(), sorted(), itertools.accumulate / a running-sum loop / a helper method that is one,
'for x in xs: [acc = acc + x]; out.append(f(acc | x))', xs[-1] = E, xs[0] = E, zip(xs, xs[1:]) (consecutive pairs).
The interpreter runs over a straight-line function body with such loops; anything else makes the affected values unknown.
"""
from __future__ import annotations

import ast
from dataclasses import dataclass, replace
from typing import Any, Optional

from .absint import Env, Facts, Lin, entails_ge0, evaluate
from .astutil import call_name
from .frontend import FunctionInfo, Program, norm


@dataclass
class AList:
    first: Optional[Lin] = None
    last: Optional[Lin] = None
    lb: Optional[Lin] = None
    ub: Optional[Lin] = None
    mono: bool = False
    known: bool = True
    empty: bool = False          # definitely the empty list
    why: str = ""                # why something is not known / not monotone (for reports)


@dataclass
class APairs:
    base: AList


UNKNOWN_LIST = AList(known=False, why="unrecognised list expression")


class ShapeInterp:
    def __init__(self, prog: Program, fn: FunctionInfo, facts: Facts, env: Env, nonneg_elt=None, depth: int = 0):
        self.prog, self.fn, self.facts, self.env, self.depth = prog, fn, facts, env, depth
        self.lists: dict[str, Any] = {}
        self.nonneg_elt = nonneg_elt or (lambda e: False)
        self.notes: list[str] = []
        self.returned: Any = None

    # ------------------------------------------------------------------ helpers
    def le(self, a: Optional[Lin], b: Optional[Lin]) -> bool:
        return a is not None and b is not None and entails_ge0(self.facts, b - a)

    def vmin(self, a: Optional[Lin], b: Optional[Lin]) -> Optional[Lin]:
        if a is None or b is None:
            return None
        return a if self.le(a, b) else b if self.le(b, a) else None

    def vmax(self, a: Optional[Lin], b: Optional[Lin]) -> Optional[Lin]:
        if a is None or b is None:
            return None
        return b if self.le(a, b) else a if self.le(b, a) else None

    def num(self, e: ast.AST) -> Optional[Lin]:
        v = evaluate(self.env, e)
        return v if isinstance(v, Lin) else None

    def concat(self, a: AList, b: AList) -> AList:
        if a.empty:
            return b
        if b.empty:
            return a
        mono = a.mono and b.mono and self.le(a.ub, b.lb)
        why = "" if mono else (a.why or b.why or "the second part is not known to start above the first part")
        return AList(first=a.first, last=b.last, lb=self.vmin(a.lb, b.lb), ub=self.vmax(a.ub, b.ub), mono=mono,
                     known=a.known and b.known, why=why)

    def runsum(self, a: AList, init: Lin) -> AList:
        if not a.known:
            return AList(known=False, why=a.why)
        if a.lb is not None and entails_ge0(self.facts, a.lb):
            return AList(lb=init, ub=None, mono=True, known=True, why="running sums have no upper bound")
        return AList(known=True, mono=False, why="running sum over values that may be negative")

    def emap(self, a: AList, var: str, elt: ast.AST) -> AList:
        """elementwise image of *a* under  var -> elt"""
        if isinstance(elt, ast.Name) and elt.id == var:
            return a
        if isinstance(elt, ast.Call) and call_name(elt) in ("min", "max") and len(elt.args) == 2 and not elt.keywords:
            x, other = None, None
            for p, q in ((elt.args[0], elt.args[1]), (elt.args[1], elt.args[0])):
                if isinstance(p, ast.Name) and p.id == var:
                    x, other = p, q
            K = self.num(other) if other is not None else None
            if x is not None and K is not None and var not in {n.id for n in ast.walk(other) if isinstance(n, ast.Name)}:
                if call_name(elt) == "min":
                    return replace(a, first=None, last=None, ub=K if a.ub is None else (self.vmin(a.ub, K) or K),
                                   lb=self.vmin(a.lb, K), why="")
                return replace(a, first=None, last=None, lb=K if a.lb is None else (self.vmax(a.lb, K) or K),
                               ub=self.vmax(a.ub, K), why="")
        if isinstance(elt, ast.Call) and call_name(elt) in ("int", "round", "float") and elt.args:
            inner = self.emap(a, var, elt.args[0])
            if inner.known and (inner is a or inner.mono == a.mono):
                # int()/round() are monotone: bounds by integers stay valid only for integer bounds; keep lb >= 0 style bounds
                return replace(inner, first=None, last=None, ub=None if inner.ub is None else inner.ub)
        if self.nonneg_elt(elt):
            return AList(lb=Lin.c(0), known=True, mono=False, why="shares are not ordered")
        return AList(known=False, why=f"unrecognised element expression '{norm(elt)[:40]}'")

    # ------------------------------------------------------------------ expressions
    def lst(self, e: ast.AST) -> Any:
        if isinstance(e, ast.Name):
            return self.lists.get(e.id, AList(known=False, why=f"'{e.id}' is not a list the analysis followed"))
        if isinstance(e, (ast.List, ast.Tuple)) and any(isinstance(x, ast.Starred) for x in e.elts):
            # [a, *xs, b]: the concatenation of its plain segments and the starred lists
            parts: list = []
            seg: list = []
            for x in e.elts:
                if isinstance(x, ast.Starred):
                    if seg:
                        parts.append(self.lst(ast.List(elts=seg, ctx=ast.Load())))
                        seg = []
                    parts.append(self.lst(x.value))
                else:
                    seg.append(x)
            if seg:
                parts.append(self.lst(ast.List(elts=seg, ctx=ast.Load())))
            if not all(isinstance(p_, AList) for p_ in parts):
                return UNKNOWN_LIST
            acc = parts[0]
            for p_ in parts[1:]:
                acc = self.concat(acc, p_)
            return acc
        if isinstance(e, ast.Subscript) and isinstance(e.slice, ast.Slice) and isinstance(e.slice.lower, ast.Constant) and e.slice.lower.value == 1 \
                and e.slice.upper is None and e.slice.step is None:
            inner = e.value
            while isinstance(inner, ast.Call) and call_name(inner) in ("list", "tuple") and len(inner.args) == 1:
                inner = inner.args[0]
            init = next((k.value for k in inner.keywords if k.arg == "initial"), None) if isinstance(inner, ast.Call) and call_name(inner) == "accumulate" else None
            if init is not None and self.num(init) is not None and self.num(init) == Lin.c(0) and len(inner.args) == 1:
                # list(accumulate(xs, initial=0))[1:] is the list of running sums of xs
                return self.lst(ast.Call(func=ast.Name(id="accumulate", ctx=ast.Load()), args=[inner.args[0]], keywords=[]))
        if isinstance(e, (ast.List, ast.Tuple)):
            if not e.elts:
                return AList(empty=True, mono=True, known=True)
            vals = [self.num(x) for x in e.elts]
            if any(v is None for v in vals):
                return AList(known=False, why="list literal with non-numeric elements")
            mono = all(self.le(x, y) for x, y in zip(vals, vals[1:]))
            lb, ub = vals[0], vals[0]
            for v in vals[1:]:
                lb, ub = self.vmin(lb, v), self.vmax(ub, v)
            return AList(first=vals[0], last=vals[-1], lb=lb, ub=ub, mono=mono, known=True)
        if isinstance(e, ast.BinOp) and isinstance(e.op, ast.Add):
            a, b = self.lst(e.left), self.lst(e.right)
            if isinstance(a, AList) and isinstance(b, AList):
                return self.concat(a, b)
            return UNKNOWN_LIST
        if isinstance(e, (ast.ListComp, ast.GeneratorExp)) and len(e.generators) == 1 and not e.generators[0].ifs \
                and isinstance(e.generators[0].target, ast.Name):
            src = self.lst(e.generators[0].iter)
            if not isinstance(src, AList):
                return UNKNOWN_LIST
            if isinstance(e.generators[0].iter, ast.Attribute) or (not src.known and self.nonneg_elt(e.elt)):
                # a comprehension over the step's own data (weights): elements characterised by the element expression
                src = AList(known=True, why="")
            return self.emap(src, e.generators[0].target.id, e.elt)
        if isinstance(e, ast.Attribute):
            return AList(known=True, why="")   # stored data of the object (e.g. self.weights): nothing known about the values
        if isinstance(e, ast.Call):
            nm = call_name(e)
            if nm in ("list", "tuple", "iter") and len(e.args) == 1:
                return self.lst(e.args[0])
            if nm == "sorted" and len(e.args) == 1 and not e.keywords:
                a = self.lst(e.args[0])
                return replace(a, mono=True, first=a.lb, last=a.ub, why="") if isinstance(a, AList) else UNKNOWN_LIST
            if nm == "accumulate" and len(e.args) == 1 and not e.keywords:
                a = self.lst(e.args[0])
                return self.runsum(a, a.lb if isinstance(a, AList) and a.lb is not None else Lin.c(0)) if isinstance(a, AList) else UNKNOWN_LIST
            if nm == "zip" and len(e.args) == 2 and isinstance(e.args[0], ast.Name) and isinstance(e.args[1], ast.Subscript) \
                    and isinstance(e.args[1].value, ast.Name) and e.args[1].value.id == e.args[0].id \
                    and isinstance(e.args[1].slice, ast.Slice) and isinstance(e.args[1].slice.lower, ast.Constant) \
                    and e.args[1].slice.lower.value == 1 and e.args[1].slice.upper is None and e.args[1].slice.step is None:
                a = self.lst(e.args[0])
                return APairs(a) if isinstance(a, AList) else UNKNOWN_LIST
            if nm == "pairwise" and len(e.args) == 1:
                a = self.lst(e.args[0])
                return APairs(a) if isinstance(a, AList) else UNKNOWN_LIST
            # a helper method / function of the repository: interpret its body on the abstract argument
            target = None
            if isinstance(e.func, ast.Attribute) and isinstance(e.func.value, ast.Name) and e.func.value.id == "self" and self.fn.cls is not None:
                target = self.prog.lookup_method(self.fn.cls, e.func.attr)
                off = 1
            elif isinstance(e.func, ast.Name):
                full = self.prog.resolve_name(self.fn.module, e.func.id)
                target = self.prog.functions.get(full) if full else None
                off = 0
            if target is not None and self.depth < 3 and isinstance(target.node, (ast.FunctionDef, ast.AsyncFunctionDef)):
                names = [x.arg for x in target.node.args.posonlyargs + target.node.args.args][off:]
                sub = ShapeInterp(self.prog, target, self.facts, Env(self.facts), self.nonneg_elt, self.depth + 1)
                for p_, a_ in zip(names, e.args):
                    v = self.lst(a_)
                    if isinstance(v, (AList, APairs)) and not (isinstance(v, AList) and not v.known and self.num(a_) is not None):
                        sub.lists[p_] = v
                    nv = self.num(a_)
                    if nv is not None:
                        sub.env.vars[p_] = nv
                sub.run()
                self.notes += sub.notes
                if sub.returned is not None:
                    return sub.returned
            return AList(known=False, why=f"unrecognised call '{norm(e)[:40]}'")
        return UNKNOWN_LIST

    # ------------------------------------------------------------------ statements
    def run(self) -> None:
        self.block(self.fn.node.body)

    def block(self, body: list[ast.stmt]) -> None:
        for st in body:
            if self.returned is not None:
                return
            self.stmt(st)

    def stmt(self, st: ast.stmt) -> None:
        if isinstance(st, ast.Expr) and isinstance(st.value, ast.Constant):
            return
        if isinstance(st, (ast.Assign, ast.AnnAssign)):
            targets = st.targets if isinstance(st, ast.Assign) else [st.target]
            if st.value is None:
                return
            for t in targets:
                if isinstance(t, ast.Name):
                    v = self.lst(st.value)
                    nv = self.num(st.value)
                    if nv is not None and not isinstance(st.value, (ast.List, ast.Tuple, ast.ListComp)):
                        self.env.vars[t.id] = nv
                        self.lists.pop(t.id, None)
                    else:
                        self.lists[t.id] = v
                        self.env.vars.pop(t.id, None)
                elif isinstance(t, ast.Subscript) and isinstance(t.value, ast.Name) and isinstance(self.lists.get(t.value.id), AList):
                    a = self.lists[t.value.id]
                    E = self.num(st.value)
                    idx = t.slice
                    is_last = isinstance(idx, ast.UnaryOp) and isinstance(idx.op, ast.USub) and isinstance(idx.operand, ast.Constant) and idx.operand.value == 1
                    is_first = isinstance(idx, ast.Constant) and idx.value == 0
                    if E is None or not (is_last or is_first):
                        self.lists[t.value.id] = AList(known=False, why=f"store '{norm(st)[:40]}' not followed")
                    elif is_last:
                        mono = a.mono and self.le(a.ub, E)
                        self.lists[t.value.id] = replace(a, last=E, ub=self.vmax(a.ub, E), lb=self.vmin(a.lb, E), mono=mono,
                                                         why="" if mono else (a.why or f"elements before the last may exceed {E!r}"))
                    else:
                        mono = a.mono and self.le(E, a.lb)
                        self.lists[t.value.id] = replace(a, first=E, lb=self.vmin(a.lb, E), ub=self.vmax(a.ub, E), mono=mono,
                                                         why="" if mono else (a.why or f"elements after the first may be below {E!r}"))
                else:
                    for n in ast.walk(t):
                        if isinstance(n, ast.Name):
                            self.lists.pop(n.id, None)
            return
        if isinstance(st, ast.AugAssign):
            if isinstance(st.target, ast.Name):
                if st.target.id in self.lists and isinstance(st.op, ast.Add):
                    a, b = self.lists[st.target.id], self.lst(st.value)
                    self.lists[st.target.id] = self.concat(a, b) if isinstance(a, AList) and isinstance(b, AList) else UNKNOWN_LIST
                else:
                    cur, v = self.env.vars.get(st.target.id), self.num(st.value)
                    if isinstance(cur, Lin) and v is not None and isinstance(st.op, (ast.Add, ast.Sub)):
                        self.env.vars[st.target.id] = cur + v if isinstance(st.op, ast.Add) else cur - v
                    else:
                        self.env.vars.pop(st.target.id, None)
            return
        if isinstance(st, ast.Return):
            self.returned = self.lst(st.value) if st.value is not None else None
            return
        if isinstance(st, (ast.Assert, ast.Pass, ast.Import, ast.ImportFrom)):
            return
        if isinstance(st, ast.Expr) and isinstance(st.value, ast.Call) and call_name(st.value) in ("append", "extend") \
                and isinstance(st.value.func, ast.Attribute) and isinstance(st.value.func.value, ast.Name) and st.value.args:
            name = st.value.func.value.id
            a = self.lists.get(name)
            if isinstance(a, AList):
                if call_name(st.value) == "append":
                    v = self.num(st.value.args[0])
                    b = AList(first=v, last=v, lb=v, ub=v, mono=True, known=v is not None)
                else:
                    b = self.lst(st.value.args[0])
                self.lists[name] = self.concat(a, b) if isinstance(b, AList) else UNKNOWN_LIST
            return
        if isinstance(st, ast.For) and not st.orelse and isinstance(st.target, ast.Name):
            self.for_loop(st)
            return
        if isinstance(st, ast.If):
            if any(isinstance(x, ast.Return) for b in (st.body + st.orelse) for x in ast.walk(b)):
                self.notes.append(f"conditional return under '{norm(st.test)[:40]}' not followed")
            saved_lists, saved_vars = dict(self.lists), dict(self.env.vars)
            outs = []
            for pol, body in ((True, st.body), (False, st.orelse)):
                self.lists, self.env.vars = dict(saved_lists), dict(saved_vars)
                self.refine(st.test, pol)
                self.block(body)
                outs.append((self.lists, self.env.vars))
            (l1, v1), (l2, v2) = outs
            self.lists = {}
            for n in set(l1) | set(l2):
                a, b = l1.get(n), l2.get(n)
                if isinstance(a, AList) and isinstance(b, AList):
                    self.lists[n] = self.join(a, b, norm(st.test)[:40])
                elif a is b and a is not None:
                    self.lists[n] = a
            self.env.vars = {n: v for n, v in v1.items() if n in v2 and v2[n] == v}
            return
        # anything else: forget the names it stores to
        for n in ast.walk(st):
            if isinstance(n, ast.Name) and isinstance(n.ctx, ast.Store):
                self.lists.pop(n.id, None)
                self.env.vars.pop(n.id, None)

    def join(self, a: AList, b: AList, cond: str) -> AList:
        if a.empty and b.empty:
            return a
        return AList(first=a.first if a.first == b.first else None, last=a.last if a.last == b.last else None,
                     lb=self.vmin(a.lb, b.lb), ub=self.vmax(a.ub, b.ub), mono=a.mono and b.mono, known=a.known and b.known,
                     why=a.why or b.why or (f"differs between the branches of '{cond}'" if (a.first != b.first or a.last != b.last) else ""))

    def refine(self, test: ast.AST, pol: bool) -> None:
        """use a branch condition of the form  L[-1] <op> E  /  L[0] <op> E  to sharpen what is known about list L"""
        if isinstance(test, ast.UnaryOp) and isinstance(test.op, ast.Not):
            return self.refine(test.operand, not pol)
        if not (isinstance(test, ast.Compare) and len(test.ops) == 1):
            return
        left, op, right = test.left, test.ops[0], test.comparators[0]
        flip = {ast.Lt: ast.Gt, ast.LtE: ast.GtE, ast.Gt: ast.Lt, ast.GtE: ast.LtE, ast.Eq: ast.Eq, ast.NotEq: ast.NotEq}
        if not (isinstance(left, ast.Subscript) and isinstance(left.value, ast.Name)):
            if isinstance(right, ast.Subscript) and isinstance(right.value, ast.Name) and type(op) in flip:
                left, right, op = right, left, flip[type(op)]()
            else:
                return
        a = self.lists.get(left.value.id)
        E = self.num(right)
        if not isinstance(a, AList) or E is None:
            return
        idx = left.slice
        is_last = isinstance(idx, ast.UnaryOp) and isinstance(idx.op, ast.USub) and isinstance(idx.operand, ast.Constant) and idx.operand.value == 1
        is_first = isinstance(idx, ast.Constant) and idx.value == 0
        if not (is_last or is_first):
            return
        t = type(op)
        if not pol:
            t = {ast.Lt: ast.GtE, ast.LtE: ast.Gt, ast.Gt: ast.LtE, ast.GtE: ast.Lt, ast.Eq: ast.NotEq, ast.NotEq: ast.Eq}.get(t)
        val = None
        if t is ast.Eq:
            val = E
        elif t is ast.GtE and is_last and self.le(a.ub, E):
            val = E     # last >= E and every element <= E
        elif t is ast.LtE and is_first and self.le(E, a.lb):
            val = E
        if val is not None:
            self.lists[left.value.id] = replace(a, **({"last": val} if is_last else {"first": val}))

    def for_loop(self, st: ast.For) -> None:
        """for x in SRC: [acc = acc + x | acc += x]; OUT.append(f(acc|x))"""
        x = st.target.id
        src = self.lst(st.iter)
        acc_name = None
        appends: list[tuple[str, ast.AST]] = []
        ok = isinstance(src, AList)
        for b in st.body:
            if isinstance(b, ast.Assign) and len(b.targets) == 1 and isinstance(b.targets[0], ast.Name) and isinstance(b.value, ast.BinOp) \
                    and isinstance(b.value.op, ast.Add) and {getattr(b.value.left, "id", None), getattr(b.value.right, "id", None)} == {b.targets[0].id, x} \
                    and acc_name is None and not appends:
                acc_name = b.targets[0].id
            elif isinstance(b, ast.AugAssign) and isinstance(b.target, ast.Name) and isinstance(b.op, ast.Add) and isinstance(b.value, ast.Name) \
                    and b.value.id == x and acc_name is None and not appends:
                acc_name = b.target.id
            elif isinstance(b, ast.Expr) and isinstance(b.value, ast.Call) and call_name(b.value) == "append" and isinstance(b.value.func, ast.Attribute) \
                    and isinstance(b.value.func.value, ast.Name) and len(b.value.args) == 1:
                appends.append((b.value.func.value.id, b.value.args[0]))
            elif isinstance(b, (ast.Pass, ast.Assert)) or (isinstance(b, ast.Expr) and isinstance(b.value, ast.Constant)):
                pass
            else:
                ok = False
        stored = {n.id for b in st.body for n in ast.walk(b) if isinstance(n, ast.Name) and isinstance(n.ctx, ast.Store)}
        if not ok or not appends:
            for n in stored | {a for a, _ in appends}:
                if n in self.lists:
                    self.lists[n] = AList(known=False, why=f"loop over '{norm(st.iter)[:30]}' not recognised")
                self.env.vars.pop(n, None)
            return
        seq = src
        var = x
        if acc_name is not None:
            init = self.env.vars.get(acc_name)
            seq = self.runsum(src, init) if isinstance(init, Lin) else AList(known=False, why=f"accumulator '{acc_name}' has no known start value")
            var = acc_name
            self.env.vars.pop(acc_name, None)
        for name, arg in appends:
            cur = self.lists.get(name)
            if not isinstance(cur, AList):
                continue
            used = {n.id for n in ast.walk(arg) if isinstance(n, ast.Name)}
            if var in used and not (acc_name is not None and x in used):
                img = self.emap(seq, var, arg)
            elif acc_name is not None and x in used and acc_name not in used:
                img = self.emap(src, x, arg)
            else:
                img = AList(known=False, why=f"appended value '{norm(arg)[:30]}' not recognised")
            self.lists[name] = self.concat(cur, img)
